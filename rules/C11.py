"""C11 - concurrent_vector growth hands out disjoint ranges and never moves elements.  (DESIGN.md section 4, C11)"""
from engine.facts import AnalysisBroken, atomic_op, atomic_ops, has_acquire, has_release
from engine.rules import (calls, calls_named, every_path_passes, last_member, is_call_to, Defs, resolve_cond_source, oname,
                          edges_where, dominated_by_edges, member_accesses, root_of, assignments, value_root, atomics_on,
                          local_objects, elem_fn_uid)
from engine import witness
from rules.C03 import try_call_sites

UNITS = ['drivers/containers.cpp']
D1N = 'tbb::detail::d1::'
CV = D1N + 'concurrent_vector::'
ST = D1N + 'segment_table::'

EXPLANATION = (
    'Decides: D1 index ranges are claimed atomically (fetch_add / ++ / CAS loop that only increases my_size); D2 elements never '
    'move during growth: from the growth API (push_back, emplace_back, grow_by, grow_to_at_least and their internals) no '
    'function that touches published segments or existing elements is reachable in the call graph; D3 segment publication: '
    'table[k] is written only by compare-exchange or a release store after allocation, an allocation failure is published in '
    'the completion/exception handler so that waiters do not spin forever, the long table is installed by CAS and the loser\'s '
    'table is freed; D4 a throwing element constructor leaves the unconstructed slots zero-filled (guard armed before '
    'construction, dismissed after it); D5 segments tile the index space (constexpr witnesses over all k); D6 growth decisions '
    'are taken in full width: no narrowing / sign-changing conversion of a size value feeds a branch in the growth call tree.  '
    'Disjointness over all interleavings as such, the segment_index_of bijection (log2 is not constexpr) and iterator validity '
    'are NOT decided.')
EXPLANATION += ' Added after the seeded-change rounds: ' + 'D7: wait loops on segment-table entries re-read the table pointer in every iteration (no snapshot from before the loop); D8: the exception cleanup of internal_loop_construct touches an element through the unchecked subscript only where its segment entry was seen allocated, and a block zero-fill count is 1 or derived from segment_size().'
EXPLANATION += ' Added in the third session (round-3 seeds and the findings they led to): ' + 'D8 also: the growth path indexes a segment only after excluding the allocation-failure tag for that very value; D9: after a failed call nothing it was responsible for stays pending - the exception cleanup tags the missing segments of the abandoned range, every wait for the long table consults the allocation-failed flag.'
EXPLANATION += ' Added later in the fourth round: ' + "D5 also: capacity() is the size of the allocated prefix (ascending scan advancing only past entries found above the failure tag); the iterator's cached pointer is stepped only inside one segment (++ tests the new index, -- the old one); a table entry is read only with an index known to be below number_of_segments.  D9 also: every exceptional exit of internal_grow / internal_loop_construct (allocation failures included) is covered by an epilogue that tags the owed segments; a wait for a first-block entry leaves when table[0] holds the failure tag; the waiting path of grow_to_at_least ends in an exception over a tagged segment.  D4/D8 are decided over exit_coverage and the clean-up closure (handlers and the helpers they call)."
EXPLANATION += ' Added in the fifth seeding round: ' + 'D2 also: before the embedded segment pointers are copied into the long table the function waits for every embedded segment that holds an index below start_index - the wait loop condition is evaluated for every start_index up to the embedded capacity (a finite domain), with segment_base / segment_index_of evaluated from their own bodies; waited segments must equal the segments whose first index is below start_index.'
ASSUMPTIONS = ['instantiations: concurrent_vector<int>, <string> (explicit instantiation + member templates used by the driver)']
ND = ['disjointness/tiling of claimed ranges over all interleavings', 'segment_index_of bijection beyond the witnesses',
      'grow_to_at_least waiting for elements that another thread is still constructing (does not hold on the waiting path; no completion state exists to anchor a rule on)']

GROWTH_API = ('push_back', 'emplace_back', 'grow_by', 'grow_to_at_least', 'internal_grow', 'internal_grow_by_delta',
              'internal_grow_to_at_least', 'internal_emplace_back', 'internal_loop_construct', 'create_segment', 'enable_segment',
              'extend_table_if_necessary', 'assign_first_block_if_necessary')
FORBIDDEN = ('delete_segment', 'destroy_segment', 'nullify_segment', 'clear', 'clear_segments', 'clear_table', 'destroy_elements',
             'internal_transfer', 'internal_move', 'internal_move_assign', 'internal_move_construct_with_allocator', 'copy_segment',
             'move_segment', 'shrink_to_fit', 'internal_compact', 'internal_swap', 'internal_resize', 'swap', 'operator=', 'assign',
             'internal_assign')


def run(facts, rep):
    d1_claims(facts, rep)
    d2_no_move(facts, rep)
    d3_publication(facts, rep)
    d4_zero_fill(facts, rep)
    d5_capacity_is_the_allocated_prefix(facts, rep)
    d5_iterator_cache_and_table_bounds(facts, rep)
    d6_width(facts, rep)
    d7_fresh_poll(facts, rep)
    d8_cleanup_access(facts, rep)
    d8_growth_access_checks_the_tag(facts, rep)
    d9_failure_visibility(facts, rep)
    d2_long_table_waits_for_every_earlier_segment(facts, rep)


def d8_growth_access_checks_the_tag(facts, rep):
    """The growth path reaches an element through internal_subscript<true>: it loads the segment entry, enables the segment if it is
    missing, and must then find out whether the entry is the allocation-failure tag BEFORE it indexes it - whichever way the
    entry was obtained (loaded as already tagged by an earlier failure, or just returned by enable_segment).  Rule: every
    `segment[index]` on a local segment pointer is dominated by an edge on which that same value of the pointer is known not to
    be the failure tag (== tag false / != tag true / > tag true, with no redefinition of the pointer in between)."""
    n = 0
    for fn in facts.fns.values():
        if not fn.p.endswith('segment_table::internal_subscript') or not calls_named(fn, ('throw_exception',)):
            continue                  # the checked (growth) instantiation is the one that can throw
        defs = Defs(fn)
        uses = []
        for b, i, e in fn.iter_elems():
            if isinstance(e, int) and fn.nodes[e].get('k') == 'index':
                bn = fn.n(fn.strip(fn.nodes[e]['base']))
                if bn.get('k') == 'var' and bn.get('local') and '*' in (bn.get('ty') or '') and 'atomic' not in (bn.get('ty') or ''):
                    uses.append(((b, i), e, bn['v']))
        for pos, e, vid in uses:
            def not_tag(a, truth, vid=vid):
                nd = fn.n(fn.strip(a))
                if nd.get('k') != 'binop' or nd['op'] not in ('==', '!=', '>', '<='):
                    return False
                sides = [fn.n(fn.strip(nd['l'])), fn.n(fn.strip(nd['r']))]
                if not any(x.get('k') == 'var' and x.get('v') == vid for x in sides):
                    return False
                if not any(fn.nodes[x].get('n') == 'segment_allocation_failure_tag' for x in fn.subtree(fn.strip(a))):
                    return False
                return truth == (nd['op'] in ('!=', '>'))
            good = set()
            use_defs = set(defs.reaching(pos, vid) or [])
            for (b, si) in edges_where(fn, not_tag):
                cpos = fn.pos_of(fn.blocks[b]['term']['c'])
                if cpos is not None and set(defs.reaching(cpos, vid) or []) == use_defs:
                    good.add((b, si))
            # r1::throw_exception(id) is not declared noreturn but throws for every known id: a path terminator (DESIGN 3.6)
            ok, wit = dominated_by_edges(fn, pos, good, extra_elem=lambda p_, e_: is_call_to(fn, e_, shortnames=('throw_exception',)))
            n += 1
            rep.ob('D8', 'K13', fn, 'the growth path indexes a segment only after excluding the allocation-failure tag for that value (line %s)'
                   % fn.nodes[e].get('ln'), ok, 'an entry that was loaded already tagged (an earlier allocation of this segment failed) is used as an '
                   'array: the element is constructed at tag + index*sizeof(T), unallocated memory, instead of bad_alloc being thrown (' + wit + ')',
                   ln=fn.nodes[e].get('ln'), key_extra='growth-tag|%s' % fn.nodes[e].get('ln'))
    if n < 1:
        raise AnalysisBroken('internal_subscript<true>: indexing of the local segment pointer not found')


def d9_failure_visibility(facts, rep):
    """'If an allocation or element constructor throws ... later accesses either work or throw': a later growth call that needs a
    segment it does not own WAITS for the owner to publish it.  So after a failed call nothing it was responsible for may stay
    'pending' for ever.
    (a) The exception cleanup of internal_loop_construct gives up the rest of its claimed range; the segments whose first
        element lies in that rest are this call's to allocate.  The cleanup must leave each of them allocated or tagged with the
        failure tag (then later accesses throw): a store / compare-exchange of segment_allocation_failure_tag into a table entry,
        or a call that enables the segment, is required in the cleanup functor.
    (b) Every wait for the long segment table (a loop / spin that ends when my_segment_table != my_embedded_table) consults
        my_segment_table_allocation_failed, as the waiters inside extend_table_if_necessary do (sibling agreement): the thread
        that failed to allocate the table only raises that flag."""
    n = 0
    for fn in facts.get(CV + 'internal_loop_construct'):
        hs = []
        for pos, s, node, d in calls_named(fn, ('make_raii_guard',)):
            for a in node.get('a', []):
                for x in fn.subtree(a):
                    if fn.nodes[x].get('k') == 'lambda' and facts.fns.get(fn.nodes[x].get('fn')) is not None:
                        hs.append(facts.fns[fn.nodes[x]['fn']])
        for _, k, bs, hh, _ in try_call_sites(facts, fn):
            if k == 'on_exception':
                hs += hh
        if not hs:
            raise AnalysisBroken('internal_loop_construct: exception cleanup functor not found')
        from engine.rules import Summaries
        summ = Summaries(facts, max_depth=3)

        def tags_or_enables(f, pos, e):
            if not isinstance(e, int):
                return False
            o = atomic_op(f, e)
            if o and o['kind'] in ('store', 'cas', 'rmw') and o.get('val', -1) >= 0 and \
                    any(f.nodes[x].get('n') == 'segment_allocation_failure_tag' for x in f.subtree(o['val'])):
                return True
            return is_call_to(f, e, shortnames=('enable_segment', 'create_segment'))
        ok = any(summ.may(h, 'tag-abandoned', tags_or_enables) for h in hs)
        n += 1
        rep.ob('D9', 'K3', fn, 'the exception cleanup leaves every segment of the abandoned range allocated or tagged as failed', ok,
               'segments whose first element lies in the abandoned part of the claimed range stay nullptr with nobody left to allocate them: a '
               'later push_back / grow_by that lands inside such a segment waits for it for ever', key_extra=str(fn.l0))
    # (b)
    nw = 0
    for fn in facts.fns.values():
        if not ((fn.cls or '').startswith(D1N + 'concurrent_vector') or (fn.cls or '').startswith(D1N + 'segment_table')):
            continue
        waits = []
        for pos, s, node, d in calls_named(fn, ('spin_wait_while_eq', 'spin_wait_until_eq', 'spin_wait_while')):
            a = node.get('a', [])
            if a and last_member(fn, a[0]) == 'my_segment_table':
                waits.append((pos, node, None))
        for pos, s, node, d in calls_named(fn, ('pause',)):
            reached, ex, par = fn.walk(pos)
            if pos not in reached:
                continue
            cyc = set(q for q in reached if fn.can_reach(q, pos))
            cyc_blocks = set(q[0] for q in cyc)
            on_table = False
            for b in cyc_blocks:
                t = fn.blocks[b].get('term')
                if t and 'c' in t and any(fn.nodes[x].get('k') == 'member' and fn.nodes[x].get('n') == 'my_embedded_table'
                                         for x in fn.subtree(t['c'])):
                    on_table = True
            if on_table:
                waits.append((pos, node, cyc))
        for pos, node, cyc in waits:
            nw += 1
            if cyc is None:
                ok = False
            else:
                ok = any(isinstance(fn.elems(q[0])[q[1]], int) and (atomic_op(fn, fn.elems(q[0])[q[1]]) or {}).get('kind') == 'load' and
                         last_member(fn, atomic_op(fn, fn.elems(q[0])[q[1]])['obj']) == 'my_segment_table_allocation_failed' for q in cyc)
            rep.ob('D9', 'K7', fn, 'the wait for the long segment table at line %s also looks at the allocation-failed flag' % node['ln'], ok,
                   'when the thread that extends the table fails (bad_alloc) it only raises my_segment_table_allocation_failed; this wait never '
                   'ends', ln=node['ln'], key_extra='tablewait|%s' % node['ln'])
    if nw < 1:
        raise AnalysisBroken('no wait for the long segment table found (extend_table_if_necessary)')
    d9_abandonment_on_every_exceptional_exit(facts, rep)
    d9_first_block_waits(facts, rep)
    d9_wait_path_reports_failed_segments(facts, rep)
    rep.floor('D9', 3, 'failure visibility')


def witnesses(rep, tier):
    witness.check_file(rep, 'D5', 'witness/vector.cpp', floor=4)


def ops_on(fn, member, kinds=None):
    return [(p, o) for p, o in atomic_ops(fn) if o['kind'] != 'fence' and last_member(fn, o['obj']) == member and (kinds is None or o['kind'] in kinds)]


def d1_claims(facts, rep):
    for fn in facts.get(CV + 'internal_grow_by_delta'):
        ws = ops_on(fn, 'my_size', ('store', 'rmw', 'cas'))
        rep.ob('D1', 'K1', fn, 'grow_by claims its range by one fetch_add on my_size', len(ws) == 1 and ws[0][1]['kind'] == 'rmw',
               ', '.join(o['name'] for _, o in ws))
    for fn in facts.get(CV + 'internal_emplace_back'):
        ws = ops_on(fn, 'my_size', ('store', 'rmw', 'cas'))
        rep.ob('D1', 'K1', fn, 'push_back claims its index by one atomic increment of my_size', len(ws) == 1 and ws[0][1]['kind'] == 'rmw',
               ', '.join(o['name'] for _, o in ws))
    for fn in facts.get(CV + 'internal_grow_to_at_least'):
        ws = ops_on(fn, 'my_size', ('store', 'rmw', 'cas'))
        ok = bool(ws) and all(o['kind'] == 'cas' for _, o in ws)
        rep.ob('D1', 'K1', fn, 'grow_to_at_least raises my_size only by compare-exchange', ok, ', '.join(o['name'] for _, o in ws))

        # `observed < requested` where the operands are the CAS's expected / desired arguments
        exp_v = set(fn.n(fn.strip(o['expected'])).get('v') for _, o in ws if o['kind'] == 'cas')
        des_v = set(fn.n(fn.strip(o['val'])).get('v') for _, o in ws if o['kind'] == 'cas')

        def lt(a, truth):
            n = fn.n(fn.strip(a))
            if n.get('k') != 'binop' or n['op'] not in ('<', '>'):
                return False
            l, r = fn.n(fn.strip(n['l'])), fn.n(fn.strip(n['r']))
            if n['op'] == '>':
                l, r = r, l
            return truth and l.get('k') == 'var' and l.get('v') in exp_v and r.get('k') == 'var' and r.get('v') in des_v
        e = edges_where(fn, lt)
        for p, o in ws:
            ok, wit = dominated_by_edges(fn, p, e)
            rep.ob('D1', 'K4', fn, 'the CAS is attempted only while the observed size is smaller than the request (size never shrinks)', ok, wit,
                   ln=o['ln'])
    rep.floor('D1', 4, 'range claims')


def d2_no_move(facts, rep):
    # call graph restricted to the container's own classes
    def own(fn):
        return fn.cls in (D1N + 'concurrent_vector', D1N + 'segment_table') or (fn.kind == 'lambda' and (CV in fn.p or ST in fn.p))
    roots = [f for f in facts.fns.values() if own(f) and f.p.split('::')[-1] in GROWTH_API and f.kind != 'lambda']
    if len(roots) < 10:
        raise AnalysisBroken('growth API of concurrent_vector not found (%d functions)' % len(roots))
    parent = {}
    seen = set()
    work = list(roots)
    for r in roots:
        seen.add(r.u)
    bad = []
    while work:
        f = work.pop()
        targets = []
        for b, i, e in f.iter_elems():
            u = elem_fn_uid(e, f)
            if u and u in facts.fns:
                targets.append((u, (b, i), e))
            if isinstance(e, int) and f.nodes[e].get('k') == 'lambda':
                u2 = f.nodes[e].get('fn')
                if u2 in facts.fns:
                    targets.append((u2, (b, i), e))
        for u, pos, e in targets:
            g = facts.fns[u]
            if not own(g):
                continue
            short = g.p.split('::')[-1]
            if short in FORBIDDEN and g.cls in (D1N + 'concurrent_vector', D1N + 'segment_table'):
                bad.append((f, g, e))
                continue
            if u not in seen:
                seen.add(u)
                parent[u] = f.u
                work.append(g)
    for r in roots:
        mine = [(f, g) for f, g, e in bad if reaches(parent, r.u, f.u)]
        rep.ob('D2', 'K11', r, 'growth entry %s cannot reach a function that moves, destroys or unpublishes existing elements' % r.p.split('::')[-1],
               not mine, 'reaches ' + ', '.join('%s (called from %s)' % (g.p.split('::')[-1], f.p.split('::')[-1]) for f, g in mine[:3]) +
               ': references/iterators obtained by other threads are invalidated during concurrent growth')
    rep.note('D2 call graph: %d functions reachable from %d growth entry points' % (len(seen), len(roots)))
    rep.floor('D2', 8, 'growth entry points')


def reaches(parent, root_u, u):
    seen = set()
    while u is not None and u not in seen:
        if u == root_u:
            return True
        seen.add(u)
        u = parent.get(u)
    return False


def d3_publication(facts, rep):
    for fn in facts.get(CV + 'create_segment'):
        lam = [g for g in facts.fns.values() if g.kind == 'lambda' and g.d.get('lparent') == fn.u]
        for f in [fn] + lam:
            for pos, s, node in f.stmt_elems(('call',)):
                op = atomic_op(f, s)
                if not op or op['kind'] not in ('store', 'rmw', 'cas'):
                    continue
                # stores into the segment table: object is table[...] / my_embedded_table[...]
                on = f.n(f.strip(op['obj']))
                if on.get('k') not in ('index',) and not (on.get('k') == 'call' and on.get('op') == '[]'):
                    continue
                ok = op['kind'] == 'cas' or has_release(op['order'] or 0)
                rep.ob('D3', 'K1', fn, 'segment table entry is published by CAS or release store (line %s)' % op['ln'], ok,
                       '%s(%s): a reader can see the segment pointer before the segment memory / earlier entries' % (op['name'], oname(op['order'])),
                       ln=op['ln'], key_extra=str(op['ln']))
        sites = try_call_sites(facts, fn)
        kinds = set(k for _, k, _, _, _ in sites)
        okc = any(k == 'on_completion' and any(any(atomic_op(h, s2) and atomic_op(h, s2)['kind'] == 'store' for _, s2, _ in h.stmt_elems(('call',))) for h in hs)
                  for _, k, _, hs, _ in sites)
        oke = any(k == 'on_exception' and any(any(atomic_op(h, s2) and atomic_op(h, s2)['kind'] in ('store', 'cas') for _, s2, _ in h.stmt_elems(('call',))) for h in hs)
                  for _, k, _, hs, _ in sites)
        rep.ob('D3', 'K9', fn, 'a failed segment allocation is published (failure tag) so that waiting threads do not spin forever', okc and oke,
               'handlers found: %s' % sorted(kinds))
    for fn in facts.get(ST + 'enable_segment'):
        ws = [(p, o) for p, o in atomic_ops(fn) if o['kind'] in ('store', 'rmw', 'cas')]
        cas = [o for _, o in ws if o['kind'] == 'cas']
        de = calls_named(fn, ('deallocate_segment',))
        casn = set(o['s'] for o in cas)
        lose = edges_where(fn, lambda a, truth: (not truth) and fn.strip(a) in casn)
        ok = bool(cas) and not [o for _, o in ws if o['kind'] == 'store'] and bool(de) and all(dominated_by_edges(fn, d[0], lose)[0] for d in de)
        rep.ob('D3', 'K1', fn, 'enable_segment publishes by CAS and frees its block only when it lost the CAS', ok,
               'segment published by plain store, or a published block is freed')
    for fn in facts.get(ST + 'extend_table_if_necessary'):
        lam = [g for g in facts.fns.values() if g.kind == 'lambda' and g.d.get('lparent') == fn.u]
        ok = False
        for g in lam:
            cas = [o for _, o in ops_on(g, 'my_segment_table', ('cas', 'store', 'rmw'))]
            if cas:
                ok = all(o['kind'] == 'cas' and has_release(o['order'] or 0) for o in cas) and bool(calls_named(g, ('destroy_and_deallocate_table',)))
        rep.ob('D3', 'K1', fn, 'the long segment table is installed by a releasing CAS and a losing table is freed', ok, 'table switch changed')
    rep.floor('D3', 5, 'segment publication')


def d4_zero_fill(facts, rep):
    """A slot that size() already covers must never be left as garbage: when the element constructor throws, the slots of the
    claimed range that exist as raw memory are zero-filled on the exceptional path (the destructor of the vector later runs ~T
    on them).  Decided with exit_coverage: the construct call is covered by a scope-exit epilogue (raii_guard, try_call handler,
    catch(...)) that - directly or through a helper - zero-fills."""
    from rules.common import exit_coverage
    from engine.rules import Summaries
    summ = Summaries(facts, max_depth=3)

    def constructs(g, pos, e):
        return isinstance(e, int) and g.nodes[e].get('k') == 'call' and (g.callee(e) or {}).get('n') == 'construct'

    def zero_fills(g, pos, e):
        return isinstance(e, int) and g.nodes[e].get('k') == 'call' and (g.callee(e) or {}).get('n') in ('zero_unconstructed_elements', 'memset')
    n = 0
    for name in ('internal_emplace_back', 'internal_loop_construct'):
        for fn in facts.get(CV + name):
            nops, normal_ok, exc_ok, notes = exit_coverage(facts, summ, fn, constructs, zero_fills, 'zero-fills-unconstructed')
            if not nops:
                raise AnalysisBroken('%s: element construction not found' % name)
            rep.ob('D4', 'K3', fn, 'element construction runs under a scope-exit epilogue that zero-fills the unconstructed slots', exc_ok,
                   'a throwing constructor leaves garbage in a slot that size() already covers (%s)' % '; '.join(notes), key_extra=str(fn.l0))
            n += 1
    rep.floor('D4', 3, 'construct guards')


def d6_width(facts, rep):
    """K14: in the growth call tree no conversion narrows (or changes the signedness at equal width of) a 64-bit size value when
    the converted value feeds a branch condition, an index or a size argument."""
    n = 0
    names = ('internal_grow_to_at_least', 'internal_grow_by_delta', 'internal_grow', 'internal_emplace_back', 'internal_loop_construct',
             'create_segment', 'grow_by', 'grow_to_at_least', 'push_back', 'emplace_back', 'reserve', 'internal_resize', 'resize')
    for name in names:
        for fn in facts.get(CV + name, required=False):
            n += 1
            defs = Defs(fn)
            bad = []
            cond_nodes = set()
            for b, blk in fn.blocks.items():
                t = blk.get('term')
                if t and 'c' in t:
                    c = t['c']
                    cond_nodes |= fn.subtree(c)
                    # values flowing into the condition through local variables
                    for x in list(fn.subtree(c)):
                        if fn.nodes[x].get('k') == 'var':
                            for dn, val in (defs.values(x) or []):
                                if val is not None:
                                    cond_nodes |= fn.subtree(val)
            for i, nd in enumerate(fn.nodes):
                if not nd or nd.get('k') != 'cast':
                    continue
                fr, to = nd.get('from'), nd.get('to')
                if not fr or not to:
                    continue
                narrowing = to[0] < fr[0] or (to[0] == fr[0] and fr[0] >= 64 and fr[1] == 0 and to[1] == 1 and False)
                if fr[0] >= 64 and narrowing and i in cond_nodes and fn.cv(nd['sub']) is None:
                    src = fn.n(fn.strip(nd['sub']))
                    bad.append('line %s: %d-bit %s value %s converted to %d-bit %s' % (nd.get('ln'), fr[0], 'signed' if fr[1] else 'unsigned',
                                                                                        fn.path(nd['sub']), to[0], 'signed' if to[1] else 'unsigned'))
            rep.ob('D6', 'K14', fn, 'growth decisions in %s are taken in full width (no narrowing of size values feeding a branch)' % name,
                   not bad, '; '.join(bad[:3]) + ': for a request whose distance to the current size is in [2^31, 2^32) the decision is '
                   'taken on a truncated value (grow_to_at_least never constructs the claimed range and waits forever)')
    if n < 6:
        raise AnalysisBroken('growth functions not found for the width rule')
    rep.floor('D6', 6, 'width discipline')



# ---------------------------------------------------------------------------------------------------------------
def d7_fresh_poll(facts, rep):
    """A thread that waits for a segment polls table[seg].  The table pointer itself is replaced concurrently (embedded
    table -> long table) and segments allocated after the switch are published in the new table only.  So inside a poll
    loop the polled atomic must be reached through a fresh read of the table pointer in every iteration, never through a
    local snapshot taken before the loop."""
    from engine.rules import root_of
    n = 0
    for fn in facts.fns.values():
        if not (fn.p.startswith(CV) or fn.p.startswith(ST)):
            continue
        defs = None
        for b, blk in fn.blocks.items():
            t = blk.get('term')
            if not t or 'c' not in t or len(blk['succ']) != 2:
                continue
            loads = [x for x in fn.subtree(t['c']) if (atomic_op(fn, x) or {}).get('kind') == 'load']
            if not loads:
                continue
            # is the branch inside a loop?  (its own block is reachable from one of its successors)
            if not any(fn.can_reach((sx, -1), (b, 0)) for sx in blk['succ'] if sx is not None):
                continue
            # innermost loop through this branch: for each outgoing edge the blocks visited before coming back to b
            cands = []
            for sx in blk['succ']:
                if sx is None:
                    continue
                seen_b, work, back = set(), [sx], False
                while work:
                    x = work.pop()
                    if x == b:
                        back = True
                        continue
                    if x in seen_b:
                        continue
                    seen_b.add(x)
                    work.extend(y for y in fn.blocks[x]['succ'] if y is not None)
                if back:
                    cands.append(set(x for x in seen_b if fn.can_reach((x, 0), (b, 0))) | {b})
            if not cands:
                continue
            loop_blocks = min(cands, key=len)
            # a wait loop, not a scan: nothing the condition depends on (an index, a cursor) changes inside the loop
            if defs is None:
                defs = Defs(fn)
            cond_vars = set(fn.nodes[y]['v'] for y in fn.subtree(t['c']) if fn.nodes[y].get('k') == 'var' and 'glob' not in fn.nodes[y])
            posmap0 = fn.positions()
            if any(v in cond_vars and dn in posmap0 and posmap0[dn][0] in loop_blocks for (v, dn) in defs.value_of):
                continue
            for x in loads:
                op = atomic_op(fn, x)
                r = fn.n(root_of(fn, op['obj']))
                if r.get('k') != 'var' or 'param' in r or 'glob' in r:
                    continue
                if defs is None:
                    defs = Defs(fn)
                dv = [(dn, val) for (v, dn), val in defs.value_of.items() if v == r['v']]
                posmap = fn.positions()
                outside = [dn for dn, val in dv if dn in posmap and posmap[dn][0] not in loop_blocks]
                inside = [dn for dn, val in dv if dn in posmap and posmap[dn][0] in loop_blocks]
                snap = any(val is not None and any((atomic_op(fn, y) or {}).get('kind') == 'load' or
                                                   (fn.nodes[y].get('k') == 'call' and (fn.callee(y) or {}).get('n') == 'get_table')
                                                   for y in fn.subtree(val)) for dn, val in dv)
                if not snap:
                    continue
                n += 1
                rep.ob('D7', 'K4', fn, 'the poll loop at line %s re-reads the table pointer in every iteration' % t.get('ln'),
                       bool(inside) or not outside,
                       'the loop polls through the local `%s`, a snapshot of the table pointer taken before the loop: after the '
                       'embedded table was replaced by the long one, new segments are published only there and the waiter spins forever'
                       % r.get('n'), ln=t.get('ln'), key_extra=str(t.get('ln')))
    # the rule has no instance on a correct tree (nothing polls through a snapshot); keep a positive count of poll loops instead
    polls = 0
    for fn in facts.fns.values():
        if fn.p.startswith(CV) or fn.p.startswith(ST):
            for b, blk in fn.blocks.items():
                t = blk.get('term')
                if t and 'c' in t and any((atomic_op(fn, x) or {}).get('kind') == 'load' for x in fn.subtree(t['c'])) and \
                        any(fn.can_reach((sx, -1), (b, 0)) for sx in blk['succ'] if sx is not None):
                    polls += 1
    if polls < 2:
        raise AnalysisBroken('D7: only %d poll loops on atomics found in concurrent_vector / segment_table' % polls)
    rep.ob('D7', 'K4', None, 'poll loops on segment-table atomics examined: %d' % polls, True, '')



# ---------------------------------------------------------------------------------------------------------------
def d8_cleanup_access(facts, rep):
    """When an element constructor throws in a multi-element growth, the handler zero-fills the rest of the claimed range.
    Only the LAST segment of the range is allocated in advance; segments between the failing element and the last one are
    allocated on demand by the construction loop and may not exist yet.  So inside the cleanup handlers of
    internal_loop_construct an element is touched through the unchecked subscript only on an edge where its segment-table
    entry was seen allocated (above the failure tag / non-null).  Otherwise the handler dereferences a null segment:
    the vector crashes instead of reporting the exception."""
    n = 0
    # the clean-up code: the scope-exit functors of the growth functions and the methods of the vector they call (helpers)
    cleanup = {}
    work = []
    for g in facts.fns.values():
        if g.kind != 'lambda':
            continue
        par = facts.fns.get(g.d.get('lparent'))
        if par is None or par.p not in (CV + 'internal_loop_construct', CV + 'internal_grow'):
            continue
        work.append((g, par))
    while work:
        g, par = work.pop()
        if g.u in cleanup:
            continue
        cleanup[g.u] = (g, par)
        for pos, sx, node, d in calls(g):
            h = facts.fns.get(node.get('fn'))
            if h is not None and (h.cls or '').startswith(D1N + 'concurrent_vector') and h.kind == 'method' and \
                    h.p not in (CV + 'internal_subscript', CV + 'internal_loop_construct', CV + 'internal_grow') and len(cleanup) < 200:
                work.append((h, par))
    for fn, par in sorted(cleanup.values(), key=lambda t: t[0].q):
        subs = [c for c in calls_named(fn, ('internal_subscript',)) if 'internal_subscript<true>' not in (c[3].get('q') or '')]
        if not subs:
            continue

        def allocated(a, truth):
            nd = fn.n(fn.strip(a))
            if nd.get('k') != 'binop':
                return False
            sub = fn.subtree(a)
            has_load = any((atomic_op(fn, x) or {}).get('kind') == 'load' for x in sub)
            if not has_load:
                return False
            tag = any(fn.nodes[x].get('k') == 'member' and fn.nodes[x].get('n') == 'segment_allocation_failure_tag' for x in sub)
            null = any(fn.nodes[x].get('null') for x in sub)
            if nd['op'] == '>' and tag:
                return truth
            if nd['op'] == '<=' and tag:
                return not truth
            if nd['op'] == '!=' and null:
                return truth
            if nd['op'] == '==' and null:
                return not truth
            return False
        ge = edges_where(fn, allocated)
        for pos, sx, node, d in subs:
            n += 1
            ok, wit = dominated_by_edges(fn, pos, ge)
            rep.ob('D8', 'K13', fn, 'the cleanup handler touches an element only if its segment is allocated (line %s)' % node['ln'], ok,
                   'the handler walks the unconstructed rest of the claimed range with the unchecked subscript; a segment between the '
                   'failing element and the (pre-allocated) last segment may not be allocated yet: null dereference while the exception is '
                   'being reported (' + wit + ')', ln=node['ln'], key_extra='%s:%s' % (par.l0, node['ln']))
    if n < 2:
        raise AnalysisBroken('D8: cleanup handlers of internal_loop_construct with element accesses: %d (expected 2)' % n)
    # segments are separate allocations: a block zero-fill must not run across a segment boundary.  K10: the count passed to
    # zero_unconstructed_elements is the constant 1 or is computed from segment_size(...) of the segment the pointer lies in
    nz = 0
    for fn in facts.fns.values():
        if not (fn.p.startswith(CV) or (fn.kind == 'lambda' and (facts.fns.get(fn.d.get('lparent')) or fn).p.startswith(CV))):
            continue
        for pos, sx, node, d in calls_named(fn, ('zero_unconstructed_elements',)):
            a = node.get('a', [])
            if len(a) < 2:
                continue
            nz += 1
            ok = fn.cv(a[1]) == 1 or any(fn.nodes[x].get('k') == 'call' and (fn.callee(x) or {}).get('n') == 'segment_size' for x in fn.subtree(a[1]))
            rep.ob('D8', 'K10', fn, 'a zero-fill block stays inside one segment (line %s)' % node['ln'], ok,
                   'the count is neither 1 nor derived from segment_size(): one memset over a range that crosses a segment boundary writes '
                   'past the end of the first segment and leaves the elements of the next segment uninitialised', ln=node['ln'],
                   key_extra='zf%s' % node['ln'])
    if nz < 5:
        raise AnalysisBroken('D8: zero_unconstructed_elements call sites: %d (expected >= 5)' % nz)


def d5_capacity_is_the_allocated_prefix(facts, rep):
    """"ranges tile [0,size())" / "later accesses work or throw without touching unallocated memory": size() is
    min(my_size, capacity()), and growth allocates the LAST segment of a multi-segment range first - so an allocated segment
    can sit above a missing or failed one (concurrently for a moment, permanently after an allocation failure or a throwing
    constructor).  capacity() therefore has to be the size of the allocated PREFIX: the index it converts with
    segment_base() is reached by an ascending scan that starts at 0, advances by one, and advances only past an entry it has
    found valid - or is the scan bound on the path where the scan found every entry below it valid.  Anything computed from the
    last allocated segment over-reports and makes size()/end() cover segments that do not exist."""
    n = 0
    for fn in facts.get(ST + 'capacity'):
        defs = Defs(fn)
        n += 1

        def prefix_var(g, gd, vid):
            """vid is an ascending validated scan index in g"""
            ds = [(v, dn) for (v, dn) in gd.value_of if v == vid]
            if not ds:
                return False
            incs = []
            for v, dn in ds:
                nd = g.nodes[dn] if dn >= 0 else {}
                val = gd.value_of.get((v, dn))
                if nd.get('k') == 'decl' or (nd.get('k') == 'binop' and nd.get('op') == '='):
                    if val is None or g.cv(val) != 0:
                        return False
                elif nd.get('k') == 'unop' and nd.get('op') == '++':
                    incs.append(dn)
                elif nd.get('k') == 'binop' and nd.get('op') == '+=' and g.cv(nd['r']) == 1:
                    incs.append(dn)
                else:
                    return False
            if not incs:
                return False
            # every advance is dominated by an edge on which the entry at the index was compared with the failure tag / null
            # and found to be above it
            def valid(a, truth):
                x = g.n(g.strip(a))
                if x.get('k') != 'binop' or x['op'] not in ('<=', '>', '<', '>=', '==', '!='):
                    return False
                sides = (x['l'], x['r'])
                for i_, sd in enumerate(sides):
                    if any(g.nodes[y].get('k') == 'index' and g.n(g.strip(g.nodes[y].get('idx', -1))).get('v') == vid for y in g.subtree(sd)):
                        other = sides[1 - i_]
                        # (a comparison with null alone does not establish validity: a failed segment holds the non-null tag)
                        tag = last_member(g, other) == 'segment_allocation_failure_tag'
                        if not tag:
                            return False
                        entry_left = (i_ == 0)
                        op = x['op']
                        if not entry_left:
                            op = {'<=': '>=', '>=': '<=', '<': '>', '>': '<'}.get(op, op)
                        above = {'>': True, '<=': False, '!=': True, '==': False}.get(op)
                        if above is None:
                            return False
                        return truth == above
                return False
            ev = edges_where(g, valid)
            return bool(ev) and all(dominated_by_edges(g, g.pos_of(i_), ev)[0] for i_ in incs)

        def prefix_expr(g, gd, x, pos, depth=0):
            xn = g.n(g.strip(x))
            if xn.get('k') == 'var' and xn.get('local'):
                if prefix_var(g, gd, xn['v']):
                    return True
                # the scan bound, on the path where the scan ran to the bound: `v < bound` was found false, v a prefix index
                def done(a, truth, w=xn['v']):
                    c = g.n(g.strip(a))
                    if c.get('k') != 'binop' or c['op'] not in ('<', '!='):
                        return False
                    l, r = g.n(g.strip(c['l'])), g.n(g.strip(c['r']))
                    return (not truth) and l.get('k') == 'var' and r.get('k') == 'var' and r.get('v') == w and prefix_var(g, gd, l.get('v'))
                return dominated_by_edges(g, pos, edges_where(g, done))[0]
            if xn.get('k') == 'call' and depth < 2:
                h = facts.fns.get(xn.get('fn'))
                if h is not None and h.q.startswith(D1N):
                    hd = Defs(h)
                    rets = [(p2, nd2) for p2, s2, nd2 in h.stmt_elems(('return',)) if 'sub' in nd2]
                    return bool(rets) and all(prefix_expr(h, hd, nd2['sub'], p2, depth + 1) for p2, nd2 in rets)
            return False
        bad = []
        rets = [(pos, nd) for pos, s, nd in fn.stmt_elems(('return',)) if 'sub' in nd]
        for pos, nd in rets:
            c = fn.n(fn.strip(nd['sub']))
            arg = None
            if c.get('k') == 'call' and (fn.callee(c['s']) or {}).get('n') == 'segment_base' and c.get('a'):
                arg = c['a'][0]
            if arg is None or not prefix_expr(fn, defs, arg, pos):
                bad.append('line %s: %s' % (nd.get('ln'), fn.path(nd['sub'])))
        rep.ob('D5', 'K4', fn, 'capacity() is the size of the allocated prefix of the segment table', bool(rets) and not bad,
               'the value returned is not reached by an ascending scan that advances only past valid entries (%s): with an allocated '
               'segment above a missing or failed one - growth allocates the last segment of a range first - size() and end() cover '
               'segments that do not exist' % '; '.join(bad), key_extra='capacity-prefix')
    if n < 1:
        raise AnalysisBroken('segment_table::capacity not found')


def d9_abandonment_on_every_exceptional_exit(facts, rep):
    """(c) A growth call owns the segments that start inside the range it claimed; my_size covers the range from the moment of
    the claim.  Whatever exception ends the call - an element constructor, but also the ALLOCATION of a segment (the last segment
    of the range is allocated in advance, the others when the loop reaches their first element) - the segments it still owes are
    tagged as failed, otherwise a later growth call that lands in one of them waits for ever.  Rule (exit_coverage): in
    internal_grow and internal_loop_construct every call that can raise an exception of user code (allocator, constructor,
    iterator) is covered on the exceptional path by an epilogue that stores / compare-exchanges the failure tag into the table."""
    from rules.common import MayThrow, exit_coverage
    from engine.rules import Summaries
    mt = MayThrow(facts, external_may_throw=False)
    summ = Summaries(facts, max_depth=3)

    def tags(f, pos, e):
        if not isinstance(e, int):
            return False
        o = atomic_op(f, e)
        return bool(o and o['kind'] in ('store', 'cas', 'rmw') and o.get('val', -1) >= 0 and
                    any(f.nodes[x].get('n') == 'segment_allocation_failure_tag' for x in f.subtree(o['val'])))

    CHECKED = (CV + 'internal_grow', CV + 'internal_loop_construct')

    def raises(g, pos, e):
        if not (isinstance(e, int) and g.nodes[e].get('k') in ('call', 'ctor') and mt.node(g, e)):
            return False
        return (g.callee(e) or {}).get('p') not in CHECKED          # a checked callee covers its own exceptional exits
    n = 0
    for name in ('internal_grow', 'internal_loop_construct'):
        for fn in facts.get(CV + name):
            nops, normal_ok, exc_ok, notes = exit_coverage(facts, summ, fn, raises, tags, 'tags-abandoned-segments')
            if not nops:
                continue
            n += 1
            rep.ob('D9', 'K3', fn, 'every exceptional exit of a growth call tags the segments it still owes as failed', exc_ok,
                   '%s - an allocation failure (or a throwing iterator) ends the call outside the clean-up: the segments that start in the '
                   'rest of the claimed range stay nullptr with nobody left to allocate them, and a later growth call waits for them for '
                   'ever' % '; '.join(n_ for n_ in notes if 'throws' in n_)[:400], key_extra='abandon|%s' % name)
    if n < 2:
        raise AnalysisBroken('internal_grow / internal_loop_construct: no call that can raise a user exception found')


def d9_first_block_waits(facts, rep):
    """(d) The segments of the first block share one allocation; the thread that wins table[0] fills the other entries, a loser
    waits for "its" entry to become non-null.  If the winner's allocation fails it can only tag the entries of the table it sees
    (the embedded table has three); after the table has been extended the remaining first-block entries are null for good.  So a
    wait for a first-block entry needs an exit of its own: the waiting loop also looks at table[0] and leaves when that holds the
    failure tag (or the failure handler provably tags first_block entries of every table).  An unconditional
    spin_wait_while_eq(table[k], nullptr) on a first-block entry never ends after a failed reserve()."""
    n = 0
    for fn in facts.get(CV + 'create_segment'):
        first_block_edges = edges_where(fn, lambda a, truth: truth and fn.n(fn.strip(a)).get('k') == 'binop' and fn.n(fn.strip(a))['op'] == '<' and
                                        fn.n(fn.strip(fn.n(fn.strip(a))['r'])).get('n') == 'first_block')
        if not first_block_edges:
            raise AnalysisBroken('create_segment: the `seg_index < first_block` branch was not found')
        # the waits of the first-block branch: in create_segment itself or in a helper method it calls there
        scopes = [(fn, lambda g, pos: dominated_by_edges(fn, pos, first_block_edges)[0])]
        for pos, s, node, d in calls(fn):
            h = facts.fns.get(node.get('fn'))
            if h is not None and (h.cls or '').startswith(D1N + 'concurrent_vector') and h.kind == 'method' and \
                    dominated_by_edges(fn, pos, first_block_edges)[0]:
                scopes.append((h, lambda g, pos: True))
        bad = []
        for g, inside in scopes:
            for pos, s, node, d in calls_named(g, ('spin_wait_while_eq',)):
                a = node.get('a', [])
                if not a or not any(g.nodes[x].get('k') == 'index' for x in g.subtree(a[0])):
                    continue
                if inside(g, pos):
                    n += 1
                    bad.append('line %s' % node['ln'])
            # explicit wait loops: a cycle that contains a pause() and loads a table entry
            for pos, s, node, d in calls_named(g, ('pause',)):
                if not inside(g, pos):
                    continue
                reached, ex, par = g.walk(pos)
                cyc = set(q for q in reached if g.can_reach(q, pos))
                if not cyc:
                    continue
                n += 1
                looks = tagcmp = False
                for q in cyc:
                    e = g.elems(q[0])[q[1]]
                    if not isinstance(e, int):
                        continue
                    sub = g.subtree(e)
                    if any(g.nodes[x].get('k') == 'index' and g.cv(g.nodes[x].get('idx', -1)) == 0 for x in sub):
                        looks = True
                    if any(g.nodes[x].get('n') == 'segment_allocation_failure_tag' for x in sub):
                        tagcmp = True
                if not (looks and tagcmp):
                    bad.append('loop at line %s' % node['ln'])
        rep.ob('D9', 'K7', fn, 'a wait for a first-block entry ends when the first block failed to allocate', n > 0 and not bad,
               'unconditional wait(s) for a first-block table entry (%s): after a failed first-block allocation on the embedded table the '
               'entries beyond it are never written - push_back number first-block-size+1 after a failed reserve() spins for ever'
               % ', '.join(bad), key_extra='first-block-wait')
    if n < 1:
        raise AnalysisBroken('create_segment: no wait for a first-block entry found')


def d9_wait_path_reports_failed_segments(facts, rep):
    """(e) grow_to_at_least(n) on a vector whose my_size already covers n waits for the segments below n.  A segment whose
    owner failed holds the failure tag: the elements it should contain do not exist, so the call must not return normally
    ("returns only when all elements below n are constructed"; size() would be smaller than n) - it compares every entry it
    waited for with the failure tag and leaves by an exception on that edge."""
    for fn in facts.get(CV + 'internal_grow_to_at_least'):
        rets = [pos for pos, s, nd in fn.stmt_elems(('return',))]

        def failed(a, truth):
            x = fn.n(fn.strip(a))
            if x.get('k') != 'binop' or x['op'] not in ('==', '!=', '<=', '>'):
                return False
            sides = (x['l'], x['r'])
            for i_, sd in enumerate(sides):
                if any(fn.nodes[y].get('k') == 'index' for y in fn.subtree(sd)) and last_member(fn, sides[1 - i_]) == 'segment_allocation_failure_tag':
                    op = x['op']
                    if i_ == 1:
                        op = {'<=': '>=', '>': '<'}.get(op, op)
                    isfail = {'==': True, '!=': False, '<=': True, '>': False}.get(op)
                    return isfail is not None and truth == isfail
            return False
        fe = edges_where(fn, failed)
        ok = bool(fe)
        for b, si in fe:
            reached, ex, par = fn.walk((fn.blocks[b]['succ'][si], -1),
                                       stop_elem=lambda p_, e: isinstance(e, int) and fn.nodes[e].get('k') == 'call' and
                                       (fn.callee(e) or {}).get('n') == 'throw_exception')
            if ex or any(r in reached for r in rets):
                ok = False
        rep.ob('D9', 'K13', fn, 'the waiting path of grow_to_at_least leaves by an exception when a segment below n is tagged as failed', ok,
               'no comparison of the awaited table entries with segment_allocation_failure_tag that ends in throw_exception: after a failed '
               'growth call grow_to_at_least(n) returns normally although the elements below n do not exist (size() < n)', key_extra='wait-path-tag')


def d5_iterator_cache_and_table_bounds(facts, rep):
    """"the address of an element never changes ... references and iterators stay valid"; "Index-to-segment arithmetic is a
    bijection"; "without touching unallocated memory".
    (a) vector_iterator caches the element's address (my_item) and steps it together with the index.  Segments are separate
        allocations, so the pointer may be stepped only when the step stays inside one segment: going up, the boundary is crossed
        iff the NEW index is the first element of a segment; going down, iff the OLD index is.  Rule: in operator++ the test
        is_first_element_in_segment(my_index) is evaluated after the increment of my_index, in operator-- before the decrement.
    (b) A segment-table entry is read with an index that was compared with the size of the table only if the comparison excludes
        index == size (the table has number_of_segments entries, the last valid index is size-1)."""
    n = 0
    for fn in sorted(facts.fns.values(), key=lambda f: f.q):
        if not (fn.cls or '').startswith(D1N + 'vector_iterator') or fn.p.split('::')[-1] not in ('operator++', 'operator--'):
            continue
        if fn.d.get('params'):
            continue            # the postfix forms call the prefix forms
        down = fn.p.endswith('operator--')
        steps = [(pos, s) for pos, s, nd in fn.stmt_elems(('unop',)) if nd['op'] == ('--' if down else '++') and last_member(fn, nd['sub']) == 'my_index']
        tests = [(pos, s) for pos, s, node, d in calls_named(fn, ('is_first_element_in_segment',))
                 if node.get('a') and last_member(fn, node['a'][0]) == 'my_index']
        if not steps or not tests:
            raise AnalysisBroken('%s: step of my_index / boundary test not found' % fn.p)
        n += 1
        if down:
            ok = all(not fn.can_reach(sp, tp) for sp, _ in steps for tp, _ in tests)
        else:
            ok = all(every_path_passes(fn, 'entry', lambda p_, e: p_ in set(sp for sp, _ in steps), end=tp)[0] for tp, _ in tests)
        rep.ob('D5', 'K10', fn, 'the cached element pointer is stepped only when the step stays inside one segment (%s)' % ('down' if down else 'up'), ok,
               'the segment-boundary test is applied to the %s index: decrementing an iterator that points at the first element of a segment '
               'steps the cached pointer to an address in front of that segment instead of dropping the cache - *it is then a foreign '
               'address, not v[index-1]' % ('new' if down else 'old'), key_extra='iter-cache')
    if n < 2:
        raise AnalysisBroken('vector_iterator::operator++ / operator-- not found')
    # (b)
    nb = 0
    for fn in sorted(facts.fns.values(), key=lambda f: f.q):
        if not ((fn.cls or '').startswith(D1N + 'concurrent_vector') or (fn.cls or '').startswith(D1N + 'segment_table')):
            continue
        ns = [s for pos, s, node, d in calls_named(fn, ('number_of_segments',))]
        if not ns:
            continue
        defs = Defs(fn)
        nvars = set(vars_of(fn, ns))
        for pos, s, nd in fn.stmt_elems(('index',)):
            iv = fn.n(fn.strip(nd.get('idx', -1)))
            if iv.get('k') != 'var' or not iv.get('local'):
                continue
            vid = iv['v']
            # comparisons of this index with the table size in this function
            def cmp_kind(a):
                x = fn.n(fn.strip(a))
                if x.get('k') != 'binop' or x['op'] not in ('<', '<=', '>', '>='):
                    return None
                l, r = fn.strip(x['l']), fn.strip(x['r'])
                def is_n(y):
                    yn = fn.n(y)
                    return y in ns or (yn.get('k') == 'var' and yn.get('v') in nvars)
                def is_i(y):
                    yn = fn.n(y)
                    return yn.get('k') == 'var' and yn.get('v') == vid
                if is_i(l) and is_n(r):
                    return x['op']
                if is_n(l) and is_i(r):
                    return {'<': '>', '<=': '>=', '>': '<', '>=': '<='}[x['op']]
                return None
            atoms = [a for b, blk in fn.blocks.items() if blk.get('term') and 'c' in blk['term'] for a, t in fn.cond_atoms(blk['term']['c'], True)
                     if cmp_kind(a)]
            if not atoms:
                continue
            # loops `for (i = 0; i < n; ++i)` are bounded by construction; what matters are guards that reject an index
            strict = edges_where(fn, lambda a, truth: (cmp_kind(a) == '<' and truth) or (cmp_kind(a) == '>=' and not truth))
            # (throw_exception does not return, which the CFG does not know)
            ok, wit = dominated_by_edges(fn, pos, strict, extra_elem=lambda p_, e: isinstance(e, int) and fn.nodes[e].get('k') == 'call' and
                                         (fn.callee(e) or {}).get('n') == 'throw_exception')
            nb += 1
            rep.ob('D5', 'K14', fn, 'a table entry is read only with an index known to be below the number of segments (line %s)' % nd.get('ln'), ok,
                   'the index is compared with number_of_segments() but index == size is let through (%s): the read goes one entry past the '
                   'table - for the embedded table that is my_first_block, taken for a segment pointer' % wit, ln=nd.get('ln'),
                   key_extra='table-bound|%s' % nd.get('ln'))
    if nb < 3:
        raise AnalysisBroken('table reads guarded by a comparison with number_of_segments(): %d (expected >= 3)' % nb)


def vars_of(fn, call_nodes):
    from engine.rules import vars_initialised_from
    return vars_initialised_from(fn, call_nodes)


def d2_long_table_waits_for_every_earlier_segment(facts, rep):
    """The first thread that needs a segment beyond the embedded table copies the embedded pointers into a long table.  Growers
    that reserved LOWER indices may still be about to publish their segment pointers into the embedded table (first block,
    or a segment that straddles start_index); a pointer copied while still null is lost - the owner then stores into a table
    nobody reads, and readers of those indices wait for ever or see no elements.  So before the copy the function waits for
    every embedded segment that holds an index below start_index.  The wait loop's bound is index arithmetic over a tiny
    domain (the embedded table has pointers_per_embedded_table entries): the loop condition is EVALUATED for every start_index
    up to the embedded capacity, with segment_base / segment_index_of taken from their own bodies, and the set of waited
    segments must equal the set of embedded segments whose first index is below start_index."""
    from rules.common import ipeval
    n = 0
    for fn in facts.get(CV + 'allocate_long_table'):
        waits = []
        for pos, s, node, d in calls_named(fn, ('spin_wait_while_eq',)):
            a0 = fn.n(fn.strip(node['a'][0])) if node.get('a') else {}
            if a0.get('k') == 'index':
                iv = fn.n(fn.strip(a0['idx']))
                if iv.get('k') == 'var':
                    waits.append((pos, node, iv['v']))
        if not waits:
            raise AnalysisBroken('%s: the wait for the embedded segment pointers was not found' % fn.q)
        ints = [p for p in fn.d.get('params', []) if 'long' in p['ty'] or 'int' in p['ty'] and '*' not in p['ty']]
        ints = [p for p in ints if '*' not in p['ty'] and '&' not in p['ty']]
        if len(ints) != 1:
            raise AnalysisBroken('%s: start index parameter not identified' % fn.q)
        start_v = ints[0]['v']
        # constants of this instantiation: the segment_table base class this vector calls into, and its embedded-table size
        # (the last template argument of segment_table<T, Allocator, Derived, PointersPerEmbeddedTable>)
        import re
        callee_classes = set((fn.callee(s_) or {}).get('q', '').rsplit('::', 1)[0] for _, s_, _, _ in calls(fn))
        base_fns = [g_ for g_ in facts.fns.values() if g_.p == ST + 'segment_base' and g_.q.rsplit('::', 1)[0] in callee_classes]
        P = None
        if base_fns:
            m = re.search(r',\s*(\d+)>$', base_fns[0].q.rsplit('::', 1)[0])
            P = int(m.group(1)) if m else None
        if P is None or not base_fns:
            raise AnalysisBroken('%s: pointers_per_embedded_table / segment_base not found (P=%s)' % (fn.q, P))
        g = base_fns[0]
        gret = [nd for pos, s, nd in g.stmt_elems(('return',))]
        gp = g.d['params'][0]['v']

        def seg_base(k):
            return ipeval(facts, g, gret[0]['sub'], {gp: k})
        cap = seg_base(P)
        for pos, node, iv in waits:
            conds = [blk['term']['c'] for b, blk in fn.blocks.items() if blk.get('term') and blk['term'].get('k') in ('ForStmt', 'WhileStmt', 'DoStmt')
                     and 'c' in blk['term'] and any(fn.nodes[x].get('k') == 'var' and fn.nodes[x].get('v') == iv for x in fn.subtree(blk['term']['c']))]
            if len(conds) != 1:
                raise AnalysisBroken('%s: loop condition of the wait loop not identified' % fn.q)
            bad = []
            for start in range(1, cap + 1):
                waited = []
                i = 0
                while i < 64:
                    v = ipeval(facts, fn, conds[0], {iv: i, start_v: start})
                    if v is None:
                        raise AnalysisBroken('%s: the wait loop condition is not evaluable (start_index=%d, i=%d)' % (fn.q, start, i))
                    if not v:
                        break
                    waited.append(i)
                    i += 1
                need = [k for k in range(P) if seg_base(k) < start]
                if waited != need:
                    bad.append('start_index=%d: waits for segments %s, segments holding earlier indices are %s' % (start, waited, need))
            n += 1
            rep.ob('D2', 'K14', fn, 'the long-table copy waits for every embedded segment that holds an index below start_index '
                   '(evaluated for start_index = 1..%d, %d embedded segments)' % (cap, P), not bad,
                   '; '.join(bad[:3]) + ': a segment pointer that an earlier grower has not published yet is copied as null into the long table - '
                   'the elements of that segment are lost (readers wait for ever / at() throws)', ln=node.get('ln'), key_extra='long-table-wait')
    if n < 1:
        raise AnalysisBroken('concurrent_vector::allocate_long_table not instantiated')
