"""C16 - arenas bound concurrency, give unique slots, isolate work, respect the worker budget.  (DESIGN.md section 4, C16)"""
from engine.facts import AnalysisBroken, atomic_op, atomic_ops, has_acquire, has_release
from engine.rules import (calls, calls_named, every_path_passes, last_member, is_call_to, Defs, resolve_cond_source, oname,
                          edges_where, dominated_by_edges, member_accesses, root_of, assignments, value_root, atomics_on,
                          elem_fn_uid, access_kind, lockset)
from rules.C03 import try_call_sites
from rules.common import TBB_SRC

UNITS = ['src/tbb/arena.cpp', 'src/tbb/arena_slot.cpp', 'src/tbb/market.cpp', 'src/tbb/thread_request_serializer.cpp',
         'src/tbb/thread_dispatcher.cpp', 'src/tbb/global_control.cpp', 'src/tbb/threading_control.cpp', 'src/tbb/observer_proxy.cpp',
         'src/tbb/governor.cpp', 'src/tbb/task_dispatcher.cpp', 'src/tbb/task.cpp', 'drivers/tbb_internal.cpp']
UNITS_THOROUGH = sorted(set(UNITS + TBB_SRC))
R1 = 'tbb::detail::r1::'

EXPLANATION = (
    'Decides: D1 unique slots: a free slot is claimed only by exchange(true)==false, every successful occupy_free_slot is paired '
    'with release() of that slot on every path (arena::process, nested_arena_context, governor::auto_terminate), release stores '
    'with release order; D2 reserved slots only for non-workers: in the as_worker=true instantiation every reachable '
    'occupy_free_slot_in_range starts at my_num_reserved_slots, my_limit only grows; D3 observer pairing: on every path that '
    'gives a slot back notify_exit_observers precedes the slot release and my_last_observer is reset/restored, a thread that '
    'attaches to a slot notifies entry observers before entering the dispatch loop; D4 isolation filter at every retrieval site '
    '(local pool, stealing, mailbox, critical stream), the FIFO stream is consulted only without isolation, isolate() restores '
    'the previous tag on both exits; D5 budget state is lock-protected (market demand and client lists under my_mutex, '
    'control_storage list/active value under my_list_mutex, global_control_lock/unlock in opposite orders), '
    'allowed_parallelism prefers the minimum and applies value-1 workers; D6 workers join only joinable arenas and always leave '
    'through on_thread_leaving.  The allotment arithmetic, the L-1 worker bound and instantaneous concurrency <= max_concurrency '
    'as a timing property are NOT decided.')
EXPLANATION += ' Added after the seeded-change rounds: ' + "D2 also: an external thread searches for a slot only below the arena's concurrency (violated on the pinned tree for task_arena(1): known finding); D5 also: after a global_control is destroyed the first element of the ascending control list becomes active; D7: what a scope object's constructor always saves from outside state is used by its destructor on every path."
EXPLANATION += ' Added in the third session (round-3 seeds and the findings they led to): ' + 'D5 also: every successful test_and_set / try_clear_if of my_pool_state / my_mandatory_concurrency is reported to the threading control on every path (path-sensitive in the result flags).'
EXPLANATION += ' Added in the fifth seeding round: ' + 'D4 also: the execution data carries the isolation tag of the task about to run - a task taken out of a container (slot deque, victim slot, mailbox proxy, stream) is executed, spawned again or handed to the caller of receive_or_steal_task only after task_accessor::isolation(*t) was stored into ed.isolation for it; tracked per path and per task-pointer variable, retrieval helpers summarised from their bodies (result stale / fine / parameter i, parameter i is re-spawned).'
EXPLANATION += ' Added in the sixth (partial) seeding round: ' + 'D1 also (shared with C02-D2 / C01-D9): a caller of task_arena::execute that waits for a slot of a full arena re-evaluates every condition that can end its wait between prepare_wait and commit_wait.'
ASSUMPTIONS = ['Linux build configuration', 'spin_mutex / rw_mutex scoped lock model']
ND = ['allotment arithmetic (sum = min(demand, limit), priorities)', 'the L-1 worker bound', 'instantaneous concurrency <= max_concurrency']
LOCKCLS = lambda c: c.endswith('scoped_lock') or c in ('std::lock_guard',)   # noqa: E731


def run(facts, rep):
    d1_slots(facts, rep)
    d2_reserved(facts, rep)
    d3_observers(facts, rep)
    d4_isolation(facts, rep)
    d5_budget(facts, rep)
    d6_join(facts, rep)
    d7_scope_symmetry(facts, rep)
    d4_isolation_tag_follows_the_task(facts, rep)
    # task_arena::execute on a full arena: the caller waits for a slot - the wait re-checks between prepare_wait and commit_wait (shared: C02-D2)
    from rules.C02 import d2_recheck_between_prepare_and_commit
    d2_recheck_between_prepare_and_commit(facts, rep, clause='D1')


def ops_on(fn, member, kinds=None):
    return [(p, o) for p, o in atomic_ops(fn) if o['kind'] != 'fence' and last_member(fn, o['obj']) == member and (kinds is None or o['kind'] in kinds)]


def slot_release_calls(fn):
    return [c for c in calls_named(fn, ('release',)) if (c[3].get('cls') or '').endswith('arena_slot')]


def d1_slots(facts, rep):
    for fn in facts.get(R1 + 'arena_slot::try_occupy'):
        ws = ops_on(fn, 'my_is_occupied', ('store', 'rmw', 'cas'))
        rep.ob('D1', 'K1', fn, 'a free slot is claimed by an atomic exchange / CAS', bool(ws) and all(o['kind'] in ('rmw', 'cas') for _, o in ws),
               'my_is_occupied changed by %s: two threads can both believe they own the slot' % ', '.join(o['name'] for _, o in ws))
        defs = Defs(fn)
        rmw = set(o['s'] for _, o in ws)
        for pos, s, node in fn.stmt_elems(('return',)):
            src = fn.n(fn.strip(node.get('sub', -1)))
            ok = bool(fn.subtree(node.get('sub', -1)) & rmw)
            rep.ob('D1', 'K10', fn, 'try_occupy reports what the RMW observed', ok, 'result not derived from the exchange', ln=node['ln'])
    for fn in facts.get(R1 + 'arena_slot::release'):
        ws = ops_on(fn, 'my_is_occupied', ('store', 'rmw', 'cas'))
        rep.ob('D1', 'K1', fn, 'slot release publishes with release order', bool(ws) and all(has_release(o['order'] or 0) for _, o in ws),
               ', '.join(oname(o['order']) for _, o in ws))
    for fn in facts.get(R1 + 'arena::occupy_free_slot_in_range'):
        defs = Defs(fn)
        to = set(c[1] for c in calls_named(fn, ('try_occupy',)))
        ok_e = edges_where(fn, lambda a, truth: truth and fn.strip(a) in to)
        for pos, s, node in fn.stmt_elems(('return',)):
            v = fn.n(fn.strip(node.get('sub', -1)))
            if v.get('k') == 'var' and 'local' in v:      # a loop index (every local returned here is a claimed slot index)
                ok, wit = dominated_by_edges(fn, pos, ok_e)
                rep.ob('D1', 'K4', fn, 'a slot index is returned only when try_occupy succeeded', ok, wit, ln=node['ln'], key_extra=str(node['ln']))
    # pairing
    for fn in facts.get(R1 + 'arena::process'):
        defs = Defs(fn)
        oc = calls_named(fn, ('occupy_free_slot',))
        rl = slot_release_calls(fn)
        if not oc:
            raise AnalysisBroken('arena::process: occupy_free_slot not found')
        ocn = set(c[1] for c in oc)

        def failed(a, truth):
            n = fn.n(fn.strip(a))
            if n.get('k') != 'binop' or n['op'] not in ('==', '!='):
                return False
            sides = [fn.strip(resolve_cond_source(fn, defs, x)) for x in (n['l'], n['r'])]
            names = [fn.n(fn.strip(x)).get('n') for x in (n['l'], n['r'])]
            if not (set(sides) & ocn) or 'out_of_arena' not in names:
                return False
            return truth == (n['op'] == '==')
        fe = edges_where(fn, failed)
        for c in oc:
            ok, wit = every_path_passes(fn, c[0], lambda p, e: p in set(r[0] for r in rl), stop_edge=lambda b, si: (b, si) in fe)
            rep.ob('D1', 'K3', fn, 'a worker that occupied a slot releases it on every path out of arena::process', ok and bool(fe),
                   'the slot stays occupied after the worker left: the arena permanently loses a slot: ' + wit, ln=c[2]['ln'])
    for fn in facts.get(R1 + 'nested_arena_context::(dtor)'):
        rl = slot_release_calls(fn)
        oe = edges_where(fn, lambda a, truth: truth and fn.n(fn.strip(a)).get('k') == 'member' and fn.n(fn.strip(a))['n'] == 'm_orig_arena')
        ok = bool(rl) and bool(oe) and all(dominated_by_edges(fn, r[0], oe)[0] for r in rl)
        for (b, si) in oe:
            ok = ok and every_path_passes(fn, (fn.blocks[b]['succ'][si], -1), lambda p, e: p in set(r[0] for r in rl))[0]
        rep.ob('D1', 'K3', fn, 'leaving a nested arena releases the slot exactly when one was taken (m_orig_arena)', ok,
               'slot of the nested arena leaked or a slot released that was never taken')
    for fn in facts.get(R1 + 'nested_arena_context::(ctor)'):
        at = calls_named(fn, ('attach_arena',))
        asg = [(p, s) for p, s, l, r in assignments(fn) if last_member(fn, l) == 'm_orig_arena']

        def other(a, truth):
            n = fn.n(fn.strip(a))
            return truth and n.get('k') == 'binop' and n['op'] == '!=' and any(fn.nodes[x].get('k') == 'member' and fn.nodes[x]['n'] == 'my_arena' for x in fn.subtree(n['s']))
        oe = edges_where(fn, other)
        ok = bool(at) and bool(asg) and all(dominated_by_edges(fn, c[0], oe)[0] for c in at) and \
            all(every_path_passes(fn, (fn.blocks[b]['succ'][si], -1), lambda p, e: p in set(x[0] for x in asg))[0] for b, si in oe)
        rep.ob('D1', 'K3', fn, 'entering a nested arena records the original arena exactly when it attaches to the new slot', ok,
               'constructor/destructor keyed on different conditions')
    for fn in facts.get(R1 + 'governor::auto_terminate'):
        rl = slot_release_calls(fn)
        se = edges_where(fn, lambda a, truth: truth and fn.n(fn.strip(a)).get('k') == 'member' and fn.n(fn.strip(a))['n'] == 'my_arena_slot')
        ok = bool(rl) and bool(se)
        for (b, si) in se:
            ok = ok and every_path_passes(fn, (fn.blocks[b]['succ'][si], -1), lambda p, e: p in set(r[0] for r in rl))[0]
        rep.ob('D1', 'K3', fn, 'a terminating external thread that still holds a slot releases it', ok, 'slot leaked at thread exit')
    rep.floor('D1', 8, 'slot claims and pairing')


def live_subtree(fn, s):
    """sub-expressions that are evaluated: of `c ? a : b` with a compile-time constant c (a template parameter in an
    instantiation) only the selected branch"""
    out = set()
    work = [s]
    while work:
        x = work.pop()
        if x in out or x < 0:
            continue
        out.add(x)
        n = fn.nodes[x]
        if n.get('k') == 'cond' and fn.cv(n['c']) is not None:
            work.append(n['l'] if fn.cv(n['c']) else n['r'])
            continue
        for k in ('sub', 'l', 'r', 'c', 'base', 'obj', 'idx', 'init'):
            if isinstance(n.get(k), int):
                work.append(n[k])
        for k in ('a', 'pl'):
            for y in n.get(k, []) or []:
                if isinstance(y, int):
                    work.append(y)
    return out


def d2_reserved(facts, rep):
    found = 0
    for fn in facts.get(R1 + 'arena::occupy_free_slot'):
        as_worker = '<true>' in fn.q
        cs = calls_named(fn, ('occupy_free_slot_in_range',))
        if not cs:
            raise AnalysisBroken('occupy_free_slot: occupy_free_slot_in_range not called')
        if as_worker:
            found += 1
            for pos, s, node, d in cs:
                a = node.get('a', [])
                ok = len(a) >= 3 and last_member(fn, a[1]) == 'my_num_reserved_slots'
                rep.ob('D2', 'K4', fn, 'a worker searches for a slot only from my_num_reserved_slots upwards', ok,
                       'occupy_free_slot<as_worker=true> scans from %s: a worker can sit in a slot reserved for external threads' %
                       (fn.path(a[1]) if len(a) > 1 else '?'), ln=node['ln'], key_extra=str(node['ln']))
        else:
            # An arena with reserved slots has at least two slots (num_arena_slots: max(2, n)); for a one-slot arena the second
            # slot exists only for the mandatory-concurrency worker.  An external thread therefore searches only below the
            # arena's concurrency: the upper bound of every range it scans is made of my_num_reserved_slots / my_max_num_workers,
            # never the raw slot count my_num_slots.
            for pos, s, node, d in cs:
                a = node.get('a', [])
                names = set(fn.nodes[x].get('n') for x in live_subtree(fn, a[2]) if fn.nodes[x].get('k') == 'member') if len(a) >= 3 else set()
                ok = bool(names) and names <= {'my_num_reserved_slots', 'my_max_num_workers'}
                rng = 'reserved range' if len(a) >= 3 and fn.cv(a[1]) == 0 else 'non-reserved range'
                rep.ob('D2', 'K10', fn, 'an external thread searches for a slot only below the arena\'s concurrency (%s)' % rng, ok,
                       'occupy_free_slot<as_worker=false> scans up to %s: in task_arena(1) a second external thread takes the slot kept for the '
                       'mandatory worker: two threads inside an arena of concurrency 1, one with current_thread_index() == max_concurrency()'
                       % (fn.path(a[2]) if len(a) > 2 else '?'), ln=node['ln'], key_extra='ext' + rng)
        au = calls_named(fn, ('atomic_update',))
        ok = bool(au) and all(last_member(fn, c[2]['a'][0]) == 'my_limit' and 'less' in fn.path(c[2]['a'][2]) for c in au if len(c[2].get('a', [])) >= 3)
        rep.ob('D2', 'K1', fn, 'my_limit is raised monotonically (atomic_update with less)', ok, 'my_limit update changed', key_extra=fn.q[-12:])
    if not found:
        raise AnalysisBroken('occupy_free_slot<true> not instantiated')
    rep.floor('D2', 4, 'reserved slots')


def d3_observers(facts, rep):
    for pname in (R1 + 'arena::process', R1 + 'nested_arena_context::(dtor)', R1 + 'governor::auto_terminate'):
        for fn in facts.get(pname):
            rl = slot_release_calls(fn)
            ne = calls_named(fn, ('notify_exit_observers',))
            if not rl:
                raise AnalysisBroken('%s: slot release not found' % pname)
            for c in rl:
                ok, wit = every_path_passes(fn, 'entry', lambda p, e: p in set(x[0] for x in ne), end=c[0])
                rep.ob('D3', 'K4', fn, 'exit observers are notified before the slot is given back', ok and bool(ne),
                       'on_scheduler_exit is skipped (or runs after another thread already took the slot): ' + wit, ln=c[2]['ln'])
            if 'auto_terminate' not in pname:
                asg = [(p, s) for p, s, l, r in assignments(fn) if last_member(fn, l) == 'my_last_observer']
                ok2 = bool(asg) and all(any(fn.can_reach(n_[0], a[0]) for a in asg) for n_ in ne)
                rep.ob('D3', 'K4', fn, 'my_last_observer is reset/restored after the exit notification', ok2,
                       'stale my_last_observer: the next entry notification skips observers or a later exit notifies twice')
    for pname in (R1 + 'arena::process', R1 + 'nested_arena_context::(ctor)'):
        for fn in facts.get(pname):
            nn = calls_named(fn, ('notify_entry_observers',))
            at = calls_named(fn, ('attach_arena',))
            ok = bool(nn) and bool(at) and all(every_path_passes(fn, a[0], lambda p, e: p in set(x[0] for x in nn))[0] for a in at)
            rep.ob('D3', 'K4', fn, 'a thread that attached to a slot notifies the entry observers', ok, 'on_scheduler_entry skipped')
    for fn in facts.get(R1 + 'arena::process'):
        nn = calls_named(fn, ('notify_entry_observers',))
        lw = calls_named(fn, ('local_wait_for_all',))
        ok = bool(nn) and bool(lw) and all(every_path_passes(fn, 'entry', lambda p, e: p in set(x[0] for x in nn), end=l[0])[0] for l in lw)
        rep.ob('D3', 'K4', fn, 'entry observers are notified before the worker enters the dispatch loop', ok, 'dispatch loop entered before on_scheduler_entry',
               key_extra='order')
    rep.floor('D3', 7, 'observer pairing')


def iso_ok_edges(fn):
    """edges on which `isolation == no_isolation` or `task isolation == isolation` holds"""
    def atom(a, truth):
        n = fn.n(fn.strip(a))
        if n.get('k') != 'binop' or n['op'] not in ('==', '!='):
            return False
        txt = fn.path(n['l']) + ' ' + fn.path(n['r'])
        if 'isolation' not in txt:
            return False
        return truth == (n['op'] == '==')
    return edges_where(fn, atom)


def d4_isolation(facts, rep):
    # local pool
    for fn in facts.get(R1 + 'arena_slot::get_task_impl'):
        defs = Defs(fn)
        rets = [(p, s, nd) for p, s, nd in fn.stmt_elems(('return',)) if 'sub' in nd and not fn.n(fn.strip(nd['sub'])).get('null')]
        # the "skip this task" flag is the local initialised from the isolation comparison; non-null returns are on its false edge
        skip = set()
        src_ok = False
        for pos, s, nd in fn.stmt_elems(('decl',)):
            for v in nd['vars']:
                if 'init' in v and fn.path(v['init']).count('isolation') >= 3:
                    skip.add(v['v'])
                    src_ok = True
        oe = edges_where(fn, lambda a, truth: (not truth) and fn.n(fn.strip(a)).get('k') == 'var' and fn.n(fn.strip(a)).get('v') in skip)
        ok = bool(rets) and src_ok and all(dominated_by_edges(fn, p, oe)[0] for p, _, _ in rets)
        rep.ob('D4', 'K4', fn, 'a task is taken from the local pool only if it belongs to the current isolation (or none is set)', ok,
               'a thread waiting inside isolate() can run an unrelated task from its own pool')
    for fn in facts.get(R1 + 'arena_slot::steal_task'):
        e = iso_ok_edges(fn)
        # the successful exit of the search loop (`break` with a non-null result) is dominated by the isolation test
        brk = [b for b, blk in fn.blocks.items() if (blk.get('term') or {}).get('k') == 'BreakStmt']
        ok = bool(e) and bool(brk) and all(dominated_by_edges(fn, (b, 0), e)[0] if fn.elems(b) else
                                           all(dominated_by_edges(fn, (pb, max(0, len(fn.elems(pb)) - 1)), e)[0] for pb, _ in fn.preds().get(b, []) if fn.elems(pb))
                                           for b in brk)
        rep.ob('D4', 'K4', fn, 'a task is stolen only if it belongs to the thief\'s isolation (or none is set)', ok,
               'an isolated waiter steals unrelated work')
    for fn in facts.get(R1 + 'mail_outbox::internal_pop'):
        e = edges_where(fn, lambda a, truth: n_is(fn, a, '!=', 'isolation') and not truth) | iso_ok_edges(fn)
        # the isolation loop: while (task isolation != isolation) advance
        loop = edges_where(fn, lambda a, truth: n_is(fn, a, '!=', 'isolation'))
        rep.ob('D4', 'K4', fn, 'the mailbox skips proxies of other isolations', bool(loop), 'no isolation comparison in mail_outbox::internal_pop')
    for fn in facts.get(R1 + 'task_stream::look_specific'):
        e = iso_ok_edges(fn)
        rets = [(p, s, nd) for p, s, nd in fn.stmt_elems(('return',)) if 'sub' in nd and not fn.n(fn.strip(nd['sub'])).get('null')]
        # resume tasks carry no tag and are exempt from isolation everywhere (the dispatch loop asserts it): the only other way to accept
        from rules.C20 import resume_exempt_edges
        ok = bool(e) and bool(rets) and all(dominated_by_edges(fn, p, e | resume_exempt_edges(fn))[0] for p, _, _ in rets)
        rep.ob('D4', 'K4', fn, 'the critical stream hands out only tasks of the requested isolation (or resume tasks, which are exempt)', ok,
               'look_specific returns a task of another isolation',
               key_extra=fn.q[-20:])
    for fn in facts.get(R1 + 'task_dispatcher::receive_or_steal_task'):
        defs = Defs(fn)
        noiso = edges_where(fn, lambda a, truth: n_is(fn, resolve_cond_source(fn, defs, a), '==', 'no_isolation') and truth)
        cs = [c for c in calls_named(fn, ('get_stream_or_critical_task',)) if any('fifo' in fn.path(a) for a in c[2].get('a', []))]
        ok = bool(cs) and all(dominated_by_edges(fn, c[0], noiso)[0] for c in cs)
        rep.ob('D4', 'K4', fn, 'the FIFO (enqueue) stream is consulted only without isolation', ok, 'an isolated waiter can pick up enqueued tasks',
               key_extra=fn.q[-30:])
    for fn in facts.get(R1 + 'isolate_within_arena'):
        sites = try_call_sites(facts, fn)
        ok = any(k == 'on_completion' and any(calls_named(h, ('set_isolation',)) for h in hs) and any(calls_named(b, ('set_isolation',)) for b in bs)
                 for _, k, bs, hs, _ in sites)
        rep.ob('D4', 'K3', fn, 'isolate() restores the previous isolation tag on normal and exceptional exit', ok, 'isolation tag not restored')
    rep.floor('D4', 6, 'isolation filter sites')


def n_is(fn, a, op, word):
    n = fn.n(fn.strip(a))
    return n.get('k') == 'binop' and n['op'] == op and word in (fn.path(n['l']) + ' ' + fn.path(n['r']))


MARKET_FIELDS = ('my_total_demand', 'my_priority_level_demand', 'my_mandatory_num_requested', 'my_clients', 'my_num_workers_soft_limit')


def d5_budget(facts, rep):
    n = 0
    for fn in facts.find(r'^tbb::detail::r1::market::'):
        if fn.kind in ('ctor', 'dtor'):
            continue
        acc = [x for x in member_accesses(fn, MARKET_FIELDS) if (x[2].get('cls') or '').endswith('market')]
        if not acc:
            continue
        if fn.p == R1 + 'market::update_allotment':
            for g, gpos, gs in facts.callers(fn.u):
                before, info = lockset(g, LOCKCLS)
                locks = set(v for v, i in info.items() if i['mutex'] == 'my_mutex')
                rep.ob('D5', 'K5', g, 'update_allotment() is called with the market mutex held', bool(before.get(gpos, frozenset()) & locks),
                       'allotment recomputed without my_mutex', key_extra=g.p)
            continue
        before, info = lockset(fn, LOCKCLS)
        locks = set(v for v, i in info.items() if i['mutex'] == 'my_mutex')
        for pos, s, node, kind in acc:
            n += 1
            rep.ob('D5', 'K5', fn, 'market::%s is accessed under my_mutex (line %s)' % (node['n'], node['ln']), bool(before.get(pos, frozenset()) & locks),
                   '%s %s without the market mutex' % (node['n'], kind), ln=node['ln'], key_extra='%s.%s' % (node['ln'], node['n']))
    for fn in facts.find(r'^tbb::detail::r1::global_control_impl::(create|destroy|remove_and_check_if_empty|is_present)$'):
        before, info = lockset(fn, LOCKCLS)
        locks = set(v for v, i in info.items() if i['mutex'] == 'my_list_mutex')
        pts = [x for x in member_accesses(fn, ('my_list', 'my_active_value'))]
        pts2 = [c for c in calls_named(fn, ('apply_active', 'erase_if_present'))]
        ok = bool(locks) and all(before.get(x[0], frozenset()) & locks for x in pts) and all(before.get(c[0], frozenset()) & locks for c in pts2)
        rep.ob('D5', 'K5', fn, 'global_control list and active value are changed under my_list_mutex', ok, 'control storage touched without its mutex')
    lk = facts.get(R1 + 'global_control_lock')
    ul = facts.get(R1 + 'global_control_unlock')
    for fn in lk:
        ok = bool(calls_named(fn, ('lock',)))
        rep.ob('D5', 'K4', fn, 'global_control_lock acquires every control mutex in index order', ok, 'lock loop changed')
    for fn in ul:
        # reverse iteration: the loop variable is decremented
        dec = [nd for p, s, nd in fn.stmt_elems(('unop',)) if nd['op'] == '--']
        ok = bool(calls_named(fn, ('unlock',))) and bool(dec)
        rep.ob('D5', 'K4', fn, 'global_control_unlock releases the control mutexes in reverse order', ok, 'unlock order changed')
    for fn in facts.get(R1 + 'allowed_parallelism_control::is_first_arg_preferred'):
        rets = [fn.n(fn.strip(nd.get('sub', -1))) for p, s, nd in fn.stmt_elems(('return',))]
        ok = len(rets) == 1 and rets[0].get('k') == 'binop' and rets[0]['op'] == '<' and fn.n(fn.strip(rets[0]['l'])).get('param') == 0 and \
            fn.n(fn.strip(rets[0]['r'])).get('param') == 1
        rep.ob('D5', 'K10', fn, 'of several max_allowed_parallelism controls the smallest wins', ok, 'preference is not a < b')
    # when a control is destroyed the most restrictive REMAINING one becomes active: the list is ordered by ascending value
    # (comparator: lhs->my_value < rhs->my_value first) and destroy() takes its first element
    for fn in facts.get(R1 + 'global_control_impl::destroy'):
        src = []
        for pos, sx, l, r in assignments(fn):
            if fn.n(fn.strip(l)).get('k') == 'var' and any(fn.nodes[x].get('k') == 'member' and fn.nodes[x].get('n') == 'my_value' for x in fn.subtree(r)):
                src += [(fn.callee(x) or {}).get('n') for x in fn.subtree(r) if fn.nodes[x].get('k') == 'call' and
                        (fn.callee(x) or {}).get('n') in ('begin', 'rbegin', 'end', 'rend', 'cbegin', 'crbegin', 'front', 'back')]
        rep.ob('D5', 'K10', fn, 'after a control is destroyed the first (smallest) remaining value becomes active', bool(src) and all(x in ('begin', 'cbegin', 'front') for x in src),
               'the new active value is taken from %s of the value-ordered list: with several live max_allowed_parallelism controls the '
               'least restrictive one is applied and more than L-1 workers run' % src)
    for fn in facts.get(R1 + 'control_storage_comparator::operator()'):
        rets = [fn.n(fn.strip(nd.get('sub', -1))) for p, s, nd in fn.stmt_elems(('return',))]
        asc = False
        for rn in rets:
            for x in fn.subtree(rn.get('s', -1)) if 's' in rn else []:
                nd = fn.nodes[x]
                if nd.get('k') == 'binop' and nd['op'] == '<' and last_member(fn, nd['l']) == 'my_value' and last_member(fn, nd['r']) == 'my_value':
                    lroot, rroot = fn.n(root_of(fn, nd['l'])), fn.n(root_of(fn, nd['r']))
                    asc = lroot.get('param') == 0 and rroot.get('param') == 1
        rep.ob('D5', 'K10', fn, 'the control list is ordered by ascending value', asc, 'comparator no longer orders lhs->my_value < rhs->my_value')
    for fn in facts.get(R1 + 'allowed_parallelism_control::apply_active'):
        cs = calls_named(fn, ('set_active_num_workers',))
        ok = bool(cs) and all(fn.n(fn.strip(c[2]['a'][0])).get('k') == 'binop' and fn.n(fn.strip(c[2]['a'][0]))['op'] == '-' and
                              fn.cv(fn.n(fn.strip(c[2]['a'][0]))['r']) == 1 for c in cs if c[2].get('a'))
        rep.ob('D5', 'K10', fn, 'a parallelism limit L allows L-1 workers (the calling thread counts)', ok, 'worker limit is not value - 1')
    d5_flag_changes_reported(facts, rep)
    rep.floor('D5', 14, 'budget state')


def d6_join(facts, rep):
    for fn in facts.get(R1 + 'arena::try_join'):
        ij = set(c[1] for c in calls_named(fn, ('is_joinable',)))
        e = edges_where(fn, lambda a, truth: truth and fn.strip(a) in ij)
        rf = [(p, o) for p, o in ops_on(fn, 'my_references', ('rmw', 'store'))]
        ok = bool(rf) and all(o['kind'] == 'rmw' for _, o in rf) and all(dominated_by_edges(fn, p, e)[0] for p, _ in rf)
        rep.ob('D6', 'K4', fn, 'a worker reference is added only to a joinable arena', ok, 'workers join an arena beyond its allotment')
    for fn in facts.get(R1 + 'arena::process'):
        ol = calls_named(fn, ('on_thread_leaving',))
        ok, wit = every_path_passes(fn, 'entry', lambda p, e: p in set(c[0] for c in ol))
        rep.ob('D6', 'K3', fn, 'every path out of arena::process drops the worker reference (on_thread_leaving)', ok and bool(ol), wit)
    rep.floor('D6', 2, 'join / leave')



# ---------------------------------------------------------------------------------------------------------------
def d7_scope_symmetry(facts, rep):
    """Scope objects (nested_arena_context for task_arena::execute / isolate, context_guard_helper ...): what the constructor
    saves on EVERY path by copying state that lives outside the object must be used by the destructor on EVERY path.  A
    restore that moved under a condition leaves the thread with the scope's settings - for nested_arena_context the
    dispatcher's execution data, i.e. the isolation tag and the context of the region the thread returns to."""
    from engine.rules import member_accesses as macc
    by_cls = {}
    for fn in facts.fns.values():
        if fn.kind in ('ctor', 'dtor') and fn.cls and fn.cls.startswith(R1):
            by_cls.setdefault(fn.cls, {}).setdefault(fn.kind, []).append(fn)
    n = 0
    for cls, d in sorted(by_cls.items()):
        if 'ctor' not in d or 'dtor' not in d:
            continue
        for ct in d['ctor']:
            saves = {}
            for b, blk in ct.blocks.items():
                for i, e in enumerate(blk['e']):
                    # written member initialiser (default member initialisers carry the line of the member declaration)
                    if isinstance(e, dict) and 'i' in e and not e['i'].startswith('(base)') and ct.l0 <= e.get('ln', 0) <= ct.l1:
                        saves.setdefault(e['i'], []).append(((b, i), e.get('s')))
            for pos, sx, l, r in assignments(ct):
                ln = ct.n(ct.strip(l))
                if ln.get('k') == 'member' and ct.n(ln.get('base', -1)).get('k') == 'this':
                    saves.setdefault(ln['n'], []).append((pos, r))
            for name, sites in sorted(saves.items()):
                # external state: the saved value is read through a parameter or another object, not a constant
                ext = any(val is not None and any(ct.nodes[x].get('k') in ('member', 'call') or (ct.nodes[x].get('k') == 'var' and 'param' in ct.nodes[x])
                                                  for x in ct.subtree(val)) for _, val in sites)
                uncond = any(every_path_passes(ct, 'entry', lambda p, e, pp=pp: p == pp)[0] for pp, _ in sites)
                if not (ext and uncond):
                    continue
                for dt in d['dtor']:
                    reads = [x for x in macc(dt, (name,)) if dt.n(x[2].get('base', -1)).get('k') == 'this']
                    if not reads:
                        continue
                    rp = set(x[0] for x in reads)
                    ok, wit = every_path_passes(dt, 'entry', lambda p, e: p in rp)
                    n += 1
                    rep.ob('D7', 'K3', dt, '%s: what the constructor always saves in %s is used by the destructor on every path'
                           % (cls.split('::')[-1], name), ok,
                           'the state saved in %s is restored only on some paths of the destructor: on the others the thread keeps the '
                           'scope\'s settings (for nested_arena_context: isolation tag and context of task_arena::execute) after the '
                           'scope ended: %s' % (name, wit), key_extra='%s.%s' % (cls, name))
    rep.floor('D7', 4, 'saved members of scope classes')


def d5_flag_changes_reported(facts, rep):
    """An arena's demand is held by the threading control as two running sums (workers requested, mandatory requests) that the arena
    adjusts by deltas.  The arena's own view is the pair of flags my_pool_state / my_mandatory_concurrency: each successful
    change of a flag (test_and_set / try_clear_if returning true) is one delta that must reach request_workers() - otherwise the
    sums drift: a mandatory request that is never revoked keeps a worker for the arena for the rest of its life (visible under
    max_allowed_parallelism == 1: a second thread runs user work; the market grants a worker to an arena with no demand).
    Rule: from every edge on which such a flag operation is known to have succeeded, every path to the function exit passes
    a call of request_workers."""
    FLAGS = ('my_pool_state', 'my_mandatory_concurrency')
    n = 0
    for fn in facts.fns.values():
        if (fn.cls or '') != R1 + 'arena' and not (fn.kind == 'lambda' and (facts.fns.get(fn.d.get('lparent')) is not None and
                                                                             (facts.fns[fn.d['lparent']].cls or '') == R1 + 'arena')):
            continue
        ops = [c for c in calls(fn) if (c[3] or {}).get('n') in ('test_and_set', 'try_clear_if') and last_member(fn, c[2].get('obj', -1)) in FLAGS]
        if not ops:
            continue
        defs = Defs(fn)
        rq = set(c[0] for c in calls_named(fn, ('request_workers',)))
        for pos, sx, node, d in ops:
            def succeeded(a, truth, sx=sx):
                return truth and fn.strip(resolve_cond_source(fn, defs, a)) == sx
            e = edges_where(fn, succeeded)
            if not e:
                continue
            n += 1
            ok = True
            wit = ''
            # path-sensitive in the local flags: `if (a || b) { ... }` regions
            from engine.rules import product_walk_from, bool_vars_tracker
            on_elem, on_edge = bool_vars_tracker(fn)
            for (b, si) in e:
                # the edge itself tells the tracker that the variable holding the result is true
                st0 = on_edge((), b, si)
                if st0 is None:
                    continue

                def elem_tr(state, p_, e_):
                    if p_ in rq:
                        return None
                    return on_elem(state, e_)
                visits, exits = product_walk_from(fn, (fn.blocks[b]['succ'][si], -1), st0, elem_tr, on_edge)
                if exits:
                    ok = False
                    wit = 'the exit is reached without request_workers()'
            rep.ob('D5', 'K3', fn, 'a successful %s of %s is reported to the threading control on every path' % (d.get('n'), last_member(fn, node.get('obj', -1))),
                   ok, 'the flag changed but the matching delta is not always sent (%s): the control\'s running sums drift - e.g. a mandatory request '
                   'stays for ever and the arena keeps a worker although nothing is enqueued' % wit, ln=node['ln'],
                   key_extra='flag|%s|%s' % (fn.p, node['ln']))
    if n < 3:
        raise AnalysisBroken('arena flag operations (test_and_set / try_clear_if) with a tested result: %d found' % n)


# ---------------------------------------------------------------------------------------------------------------
# D4 (round 5): the execution data carries the isolation tag of the task that is about to run
TASK_CONTAINERS = ('arena_slot', 'arena', 'task_stream', 'task_proxy', 'mail_inbox', 'mail_outbox')


def d4_isolation_tag_follows_the_task(facts, rep, clause='D4'):
    """While a task runs, ed.isolation is the task's own tag: everything the task spawns inherits it, and a nested wait filters
    by it.  A task taken out of a container (slot deque, another slot, mailbox proxy, a stream) arrives without touching the
    execution data, so the dispatcher stores task_accessor::isolation(*t) into ed.isolation before the task is executed or
    handed to its caller.  Tracked per path and per task-pointer variable: `stale` = taken from a container and the tag not yet
    stored for it; helpers are summarised (result stale / result fine / result is parameter i) from their own bodies, so the
    store may live in the retrieval helper or in its caller."""
    from engine.rules import product_walk_from
    TASKP = ('tbb::detail::d1::task *', 'd1::task *')
    memo = {}

    def is_taskp(ty):
        return (ty or '').replace('const', '').strip() in TASKP

    def analyse(fn, depth, judge=None):
        """returns the set of outcomes of fn's returns: 'S', 'OK', ('P', i); judge(kind, pos, node, var_is_stale) is called at
        execute()/cancel() sites and returns"""
        params = {}
        for nd in fn.nodes:
            if nd.get('k') == 'var' and 'param' in nd and is_taskp(nd.get('ty')):
                params[nd['v']] = nd['param']

        defs = Defs(fn)

        def var_of(s):
            nd = fn.n(fn.strip(s))
            return nd['v'] if nd.get('k') == 'var' and is_taskp(nd.get('ty')) else None

        def is_null(s):
            return bool(fn.n(fn.strip(s)).get('null'))

        def status_of_expr(s, st):
            """set of statuses ('S', 'OK', ('P', i)) of a task-pointer expression in state st"""
            stale, orig = st
            if is_null(s):
                return set(['OK'])
            v = var_of(s)
            if v is not None:
                if v in stale:
                    return set(['S'])
                for (x, i) in orig:
                    if x == v:
                        return set([('P', i)])
                return set(['OK'])
            s2 = fn.strip(s)
            nd = fn.n(s2)
            if nd.get('k') == 'call':
                couts = outcomes_of_call(s2, nd)
                res = set()
                requirements(s2, nd, couts, st)
                for o in couts:
                    if isinstance(o, tuple) and o[0] == 'R':
                        continue
                    if isinstance(o, tuple):
                        args = nd.get('a', [])
                        if o[1] < len(args):
                            res |= status_of_expr(args[o[1]], st)
                        else:
                            res.add('OK')
                    else:
                        res.add(o)
                return res
            if nd.get('k') == 'cond':
                return status_of_expr(nd['l'], st) | status_of_expr(nd['r'], st)
            return set(['OK'])

        def requirements(s, nd, couts, st):
            """the callee re-spawns its parameter i (r1::spawn stamps the task with ed.isolation): the argument must not be stale"""
            stale, orig = st
            args = nd.get('a', [])
            for o in couts:
                if isinstance(o, tuple) and o[0] == 'R' and o[1] < len(args):
                    v = var_of(args[o[1]])
                    if v is None:
                        continue
                    if v in stale:
                        if judge is not None:
                            judge('respawn', fn.pos_of(s) or (0, 0), nd, True)
                    else:
                        if judge is not None:
                            judge('respawn', fn.pos_of(s) or (0, 0), nd, False)
                        for (x, i) in orig:
                            if x == v:
                                outs.add(('R', i))

        def outcomes_of_call(s, nd):
            d = fn.callee(s) or {}
            g = facts.fns.get(nd.get('fn'))
            cls = (d.get('cls') or '').split('::')[-1].split('<')[0]
            if cls in TASK_CONTAINERS:
                # a container hands the task out as it is; only if its own code stores the tag is its body consulted
                if g is not None and depth < 4 and g.u != fn.u and writes_tag(g, 0):
                    return summary(g, depth + 1)
                return set(['S'])
            if g is not None and depth < 4 and g.u != fn.u and cls != 'task':
                return summary(g, depth + 1)
            return set(['OK'])

        def assign(st, v, sts):
            stale, orig = st
            stale = set(stale)
            orig = set(x for x in orig if x[0] != v)
            stale.discard(v)
            if 'S' in sts:
                stale.add(v)
            for o in sts:
                if isinstance(o, tuple):
                    orig.add((v, o[1]))
            return (frozenset(stale), frozenset(orig))

        def elem_tr(st, pos, e):
            if not isinstance(e, int):
                return st
            nd = fn.nodes[e]
            k = nd.get('k')
            if k == 'binop' and nd.get('op') == '=':
                ln_ = fn.n(fn.strip(nd['l']))
                if ln_.get('k') == 'var' and is_taskp(ln_.get('ty')):
                    return assign(st, ln_['v'], status_of_expr(nd['r'], st))
                if ln_.get('k') == 'member' and ln_.get('n') == 'isolation' and (ln_.get('cls') or '').endswith('execution_data_ext'):
                    rs = fn.strip(nd['r'])
                    if fn.n(rs).get('k') == 'var':           # the tag went through a local: `auto tag = isolation(*t); ed.isolation = tag;`
                        uv = defs.unique_value(rs)
                        if uv is not None:
                            rs = fn.strip(uv)
                    r = fn.n(rs)
                    if r.get('k') == 'call' and (fn.callee_p(rs) or '').endswith('task_accessor::isolation') and r.get('a'):
                        a0 = fn.n(fn.strip(r['a'][0]))
                        if a0.get('k') == 'unop' and a0.get('op') == '*':
                            v = var_of(a0['sub'])
                            if v is not None:
                                stale, orig = st
                                return (frozenset(x for x in stale if x != v), frozenset(x for x in orig if x[0] != v))
                return st
            if k == 'decl':
                for v in nd.get('vars', []):
                    if is_taskp(v.get('ty')) and v.get('init', -1) >= 0:
                        st = assign(st, v['v'], status_of_expr(v['init'], st))
                return st
            if k == 'call' and (fn.callee_p(e) or '') == R1 + 'spawn' and nd.get('a'):
                a0 = fn.n(fn.strip(nd['a'][0]))
                v = var_of(a0['sub']) if a0.get('k') == 'unop' and a0.get('op') == '*' else None
                if v is not None:
                    if judge is not None:
                        judge('respawn', pos, nd, v in st[0])
                    for (x, i) in st[1]:
                        if x == v:
                            outs.add(('R', i))
            if k == 'call' and judge is not None and (fn.callee(e) or {}).get('n') in ('execute', 'cancel') and nd.get('obj', -1) >= 0:
                v = var_of(nd['obj'])
                if v is not None and ((fn.callee(e) or {}).get('cls') or '').endswith('d1::task'):
                    judge('run', pos, nd, v in st[0])
            if k == 'return' and nd.get('sub', -1) >= 0:
                for o in status_of_expr(nd['sub'], st):
                    outs.add(o)
                    if judge is not None and o == 'S':
                        judge('return', pos, nd, True)
                if judge is not None:
                    judge('return', pos, nd, False)
            return st

        def edge_tr(st, b, si):
            stale, orig = st
            for (c, truth) in fn.edge_conds(b, si):
                cn = fn.n(c)
                v = None
                if cn.get('k') == 'var' and not truth:
                    v = cn['v'] if is_taskp(cn.get('ty')) else None
                elif cn.get('k') == 'binop' and cn.get('op') == '=' and not truth:
                    v = var_of(cn['l'])
                elif cn.get('k') == 'binop' and cn.get('op') in ('==', '!=') and ((cn['op'] == '==') == truth):
                    if is_null(cn['r']):
                        v = var_of(cn['l'])
                    elif is_null(cn['l']):
                        v = var_of(cn['r'])
                if v is not None:
                    stale = frozenset(x for x in stale if x != v)
                    orig = frozenset(x for x in orig if x[0] != v)
            return (stale, orig)
        outs = set()
        init = (frozenset(), frozenset(params.items()))
        product_walk_from(fn, (fn.entry, -1), init, elem_tr, edge_tr)
        return outs

    wmemo = {}

    def writes_tag(g, depth):
        if g.u in wmemo:
            return wmemo[g.u]
        wmemo[g.u] = False
        res = False
        for pos, s_, l, r in assignments(g):
            ln_ = g.n(g.strip(l))
            if ln_.get('k') == 'member' and ln_.get('n') == 'isolation' and (ln_.get('cls') or '').endswith('execution_data_ext'):
                res = True
        if not res and depth < 3:
            for pos, s_, node, d in calls(g):
                h = facts.fns.get(node.get('fn'))
                if h is not None and writes_tag(h, depth + 1):
                    res = True
                    break
        wmemo[g.u] = res
        return res

    def summary(g, depth):
        if g.u in memo:
            return memo[g.u]
        memo[g.u] = set(['OK'])
        res = analyse(g, depth)
        memo[g.u] = res or set(['OK'])
        return memo[g.u]
    n_sites = [0]
    for name in ('task_dispatcher::receive_or_steal_task', 'task_dispatcher::local_wait_for_all', 'task_dispatcher::steal_or_get_critical',
                 'task_dispatcher::get_critical_task'):
        for fn in facts.get(R1 + name):
            sites = {}

            def judge(kind, pos, nd, bad):
                key = (kind, pos)
                sites[key] = sites.get(key, False) or bad
                sites[(key, 'ln')] = nd.get('ln')
            outs = analyse(fn, 0, judge)
            for key, bad in sorted((k, v) for k, v in sites.items() if len(k) == 2 and k[1] != 'ln'):
                kind = key[0]
                n_sites[0] += 1
                what = {'run': 'a task is executed only after its isolation tag was stored into the execution data',
                        'respawn': 'a task that is spawned again (r1::spawn stamps it with ed.isolation) had its own tag stored first',
                        'return': 'a task handed to the caller carries its own isolation tag in the execution data (or the caller is told to store it)'}[kind]
                if kind == 'return' and name.split('::')[-1] != 'receive_or_steal_task':
                    continue          # helpers are judged through the summary; local_wait_for_all returns only postponed / no tasks
                rep.ob(clause, 'K4', fn, what, not bad,
                       'a task taken out of a container reaches this point while ed.isolation still holds the tag of the previous task: '
                       'what it spawns inherits a foreign tag, and an isolated wait nested in it filters by the wrong tag',
                       ln=sites.get((key, 'ln')), key_extra='iso-tag|%s|%s' % (kind, fn.q[-40:]))
    if n_sites[0] < 3:
        raise AnalysisBroken('isolation tag: %d judged execute / return sites (expected >= 3)' % n_sites[0])
