"""C13 - concurrent_priority_queue is a linearizable priority queue.  NARROW CLAIM (DESIGN.md section 4, C13)"""
from engine.facts import AnalysisBroken, atomic_op, atomic_ops, has_acquire, has_release
from engine.rules import (calls, calls_named, every_path_passes, last_member, is_call_to, Defs, resolve_cond_source, oname,
                          edges_where, dominated_by_edges, member_accesses, root_of, assignments, value_root, atomics_on)
from rules.common import k8_handler

UNITS = ['drivers/containers.cpp']
D1N = 'tbb::detail::d1::'
AG = D1N + 'aggregator_generic::'
CPQ = D1N + 'concurrent_priority_queue::'

EXPLANATION = (
    'Narrow claim.  Decides: D1 aggregator protocol: an operation is pushed onto the pending list by compare-exchange, only the '
    'thread that found the list empty becomes the handler, the handler waits for handler_busy, takes the whole list by '
    'exchange(nullptr), runs the handler and releases handler_busy with release order; submitters wait on their status with '
    'acquire; D2 every batched operation is completed exactly once: on every path of the handler, each operation taken from the '
    'list gets a non-zero status (release) or is deferred to the second pass, which completes it; D3 a throwing copy/move fails '
    'only its own operation: the push is inside try, the handler stores FAILED for that operation and continues, push() throws '
    'only when its own status is FAILED; D4 the heap is re-established (heapify) before the handler returns whenever unheapified '
    'elements remain.  "Highest priority at the linearization point" and the heap arithmetic are NOT decided.')
EXPLANATION += ' Added after the seeded-change rounds: ' + 'D3 also: every user operation (element assignment / construction, comparator call) inside the aggregator handler closure is inside a try block (violated on the pinned tree for the pop path and the heap maintenance: known findings); D4 also: the sift-down of reheap reads data[] only below mark.'
EXPLANATION += ' Added in the third session (round-3 seeds and the findings they led to): ' + 'D2 also: an operation is not touched any more once its status has been published (the link to the next operation is read before).'
ASSUMPTIONS = ['instantiations: concurrent_priority_queue<int>, <string>']
ND = ['a successful try_pop returns a highest-priority element at its linearization point', 'heap arithmetic (heapify / reheap)']


def run(facts, rep):
    d1_aggregator(facts, rep)
    d2_complete(facts, rep)
    d3_exceptions(facts, rep)
    d4_heap(facts, rep)


def ops_on(fn, member, kinds=None):
    return [(p, o) for p, o in atomic_ops(fn) if o['kind'] != 'fence' and last_member(fn, o['obj']) == member and (kinds is None or o['kind'] in kinds)]


def d1_aggregator(facts, rep):
    for fn in facts.get(AG + 'execute'):
        defs = Defs(fn)
        ws = ops_on(fn, 'pending_operations', ('store', 'rmw', 'cas'))
        rep.ob('D1', 'K1', fn, 'an operation is appended to the pending list by compare-exchange', bool(ws) and all(o['kind'] == 'cas' for _, o in ws),
               ', '.join(o['name'] for _, o in ws))
        nx = ops_on(fn, 'next', ('store',))
        ok = bool(nx) and bool(ws) and all(every_path_passes(fn, 'entry', lambda p, e: p in set(q for q, _ in nx), end=cp)[0] for cp, _ in ws)
        rep.ob('D1', 'K4', fn, 'op->next is set before the operation becomes visible', ok, 'CAS before the link store')
        sh = calls_named(fn, ('start_handle_operations',))

        # the previous list head is the CAS's `expected` argument: null => this thread is the first
        head_v = set(fn.n(fn.strip(o['expected'])).get('v') for _, o in ws if o['kind'] == 'cas')

        def first(a, truth):
            n = fn.n(fn.strip(a))
            return (not truth) and n.get('k') == 'var' and n.get('v') in head_v
        fe = edges_where(fn, first)
        ok = bool(sh) and bool(fe) and all(dominated_by_edges(fn, c[0], fe)[0] for c in sh)
        rep.ob('D1', 'K4', fn, 'only the thread that found the list empty becomes the handler', ok, 'handler election changed')
        for (b, si) in fe:
            ok = every_path_passes(fn, (fn.blocks[b]['succ'][si], -1), lambda p, e: p in set(c[0] for c in sh))[0]
            rep.ob('D1', 'K4', fn, 'the thread that found the list empty always handles it', ok, 'the first submitter may skip handling: everybody waits',
                   key_extra='must')
        w = [c for c in calls_named(fn, ('spin_wait_while_eq',)) if c[2].get('a') and last_member(fn, c[2]['a'][0]) == 'status']
        ok = bool(w) and all(len(c[2]['a']) < 3 or (fn.cv(c[2]['a'][2]) or 0) in (2, 4, 5) for c in w)
        rep.ob('D1', 'K1', fn, 'a submitter waits for its status with acquire', ok, 'status wait missing or relaxed')
    for fn in facts.get(AG + 'start_handle_operations'):
        w = [c for c in calls_named(fn, ('spin_wait_until_eq',)) if c[2].get('a') and last_member(fn, c[2]['a'][0]) == 'handler_busy']
        st = ops_on(fn, 'handler_busy', ('store', 'rmw'))
        x = [(p, o) for p, o in ops_on(fn, 'pending_operations') if o['kind'] == 'rmw' and o['name'] == 'exchange']
        calls_h = [c for c in calls(fn) if c[2].get('op') == '()']
        set1 = [(p, o) for p, o in st if fn.cv(o.get('val', -1)) == 1]
        set0 = [(p, o) for p, o in st if fn.cv(o.get('val', -1)) == 0]
        ok = bool(w) and bool(set1) and bool(x) and bool(calls_h) and bool(set0) and \
            every_path_passes(fn, 'entry', lambda p, e: p in set(c[0] for c in w), end=set1[0][0])[0] and \
            every_path_passes(fn, 'entry', lambda p, e: p == set1[0][0], end=x[0][0])[0] and \
            every_path_passes(fn, 'entry', lambda p, e: p == x[0][0], end=calls_h[0][0])[0] and \
            every_path_passes(fn, 'entry', lambda p, e: p == calls_h[0][0], end=set0[0][0])[0] and \
            every_path_passes(fn, 'entry', lambda p, e: p == set0[0][0])[0]
        rep.ob('D1', 'K4', fn, 'handler: wait busy==0, set busy, take the list by exchange, handle, clear busy', ok, 'handler sequence changed')
        rep.ob('D1', 'K1', fn, 'handler_busy is released with release order', bool(set0) and all(has_release(o['order'] or 0) for _, o in set0),
               ', '.join(oname(o['order']) for _, o in set0))
    rep.floor('D1', 6, 'aggregator protocol')


def d2_complete(facts, rep):
    n = 0
    for fn in facts.get(CPQ + 'handle_operations'):
        n += k8_handler(facts, rep, 'D2', fn)
    if n < 3:
        raise AnalysisBroken('cpq handler: only %d iteration/handler entry points found' % n)
    rep.floor('D2', 3, 'handler passes + exception handler')


def d3_exceptions(facts, rep):
    for fn in facts.get(CPQ + 'handle_operations'):
        pb = [c for c in calls_named(fn, ('push_back', 'push_back_helper'))]
        ok = bool(pb) and all(c[2].get('tr') is not None for c in pb)
        rep.ob('D3', 'K9', fn, 'element copies/moves into the heap storage happen inside try', ok,
               'a throwing copy constructor unwinds out of the handler: every batched operation hangs')
        # ... and the try stops EVERY exception: the element type is the user's, its copy / move may throw anything.  A handler
        # list without catch(...) lets the others escape from the aggregator handler (handler_busy stays set, the batch is dropped).
        trys = set(c[2].get('tr') for c in pb if c[2].get('tr') is not None)
        for t in sorted(trys):
            hs = [nd for nd in fn.nodes if nd and nd.get('k') == 'catch' and nd.get('try') == t]
            rep.ob('D3', 'K9', fn, 'the try around the element copy has a catch(...) handler', any(h.get('ell') for h in hs),
                   'handlers: %s - an exception of another type thrown by the element\'s copy / move constructor escapes the handler: it '
                   'surfaces in whichever thread runs the batch, the submitter spins for ever and handler_busy stays set'
                   % [h.get('ty') or '...' for h in hs], key_extra='catchall|%s' % t)
        # the catch handler writes only the status of the current operation (through tmp)
        for b, blk in fn.blocks.items():
            lab = blk.get('label')
            if not lab or 'catch' not in lab:
                continue
            sts = [atomic_op(fn, s2) for pos2, s2, nd2 in fn.stmt_elems(('call',)) if nd2.get('ca') is not None and atomic_op(fn, s2)
                   and last_member(fn, atomic_op(fn, s2)['obj']) == 'status']
            from rules.common import handler_iterations
            cur = set()          # the "current operation" variables: assigned from the list variable before it advances
            lists = set(v for _, _, v, _ in handler_iterations(fn))
            for p2, s3, l2, r2 in assignments(fn):
                if fn.n(fn.strip(r2)).get('k') == 'var' and fn.n(fn.strip(r2)).get('v') in lists and fn.n(fn.strip(l2)).get('k') == 'var':
                    cur.add(fn.n(fn.strip(l2))['v'])
            ok = len(sts) == 1 and fn.n(root_of(fn, sts[0]['obj'])).get('v') in cur and fn.cv(sts[0].get('val', -1)) not in (None, 0, 1)
            rep.ob('D3', 'K9', fn, 'the exception handler fails exactly the current operation', ok,
                   'handler stores: %s' % [(o['path'], fn.cv(o.get('val', -1))) for o in sts])
    npush = 0
    for fn in facts.get(CPQ + 'push'):
        th = calls_named(fn, ('throw_exception',))
        defs = Defs(fn)

        def failed(a, truth):
            n = fn.n(fn.strip(a))
            if n.get('k') != 'binop' or n['op'] != '==' or not truth:
                return False
            has_status = any(fn.nodes[x].get('k') == 'member' and fn.nodes[x]['n'] == 'status' for x in fn.subtree(n['s']))
            vals = [fn.cv(n['l']), fn.cv(n['r'])]
            return has_status and 2 in vals
        fe = edges_where(fn, failed)
        ok = bool(th) and bool(fe) and all(dominated_by_edges(fn, c[0], fe)[0] for c in th)
        rep.ob('D3', 'K4', fn, 'push() throws only when its own operation FAILED', ok, 'throw not tied to the own status', key_extra=str(fn.l0))
        npush += 1
    d3_user_ops_in_handler(facts, rep)
    rep.floor('D3', 5, 'exception isolation')


def d3_user_ops_in_handler(facts, rep):
    """Inside the aggregator handler (handle_operations and the heap maintenance it calls) an exception that escapes leaves
    `handler_busy` set and the rest of the batch without a status: every thread with an operation in the batch and every later
    operation spins forever, and the exception surfaces in whichever thread happened to run the handler.  So every user
    operation in that closure - an operation on a value of the element type or a call of the user's comparator (template-
    parameter typed, `tp`) - must be inside a try block.  One obligation per function and kind of operation."""
    from rules.common import user_op
    roots = facts.get(CPQ + 'handle_operations')
    closure = {}
    work = list(roots)
    while work:
        fn = work.pop()
        if fn.u in closure:
            continue
        closure[fn.u] = fn
        for pos, sx, node, d in calls(fn):
            g = facts.fns.get(node.get('fn'))
            if g is not None and g.cls == fn.cls and g.u not in closure:
                work.append(g)
    seen = {}
    for fn in closure.values():
        for b, i, e in fn.iter_elems():
            if not isinstance(e, int) or not user_op(fn, e):
                continue
            nd = fn.nodes[e]
            d = fn.callee(e) if nd.get('k') in ('call', 'ctor') else None
            what = (d or {}).get('n') or nd.get('op') or nd.get('k')
            if nd.get('k') == 'binop' and nd['op'] != '=':
                continue        # index / size arithmetic on size_type (a typedef that goes through the allocator parameter)
            if nd.get('k') == 'unop':
                continue
            what = {'operator()': 'comparator call', '=': 'element assignment', 'operator=': 'element assignment',
                    '(ctor)': 'element construction'}.get(what, what)
            key = (fn.p, what)
            ent = seen.setdefault(key, {'fn': fn, 'unguarded': [], 'n': 0})
            ent['n'] += 1
            if nd.get('tr') is None:
                ent['unguarded'].append(nd.get('ln'))
    if not seen:
        raise AnalysisBroken('no user operations found in the concurrent_priority_queue handler closure')
    for (p, what), ent in sorted(seen.items()):
        fn = ent['fn']
        rep.ob('D3', 'K9', fn, 'user operation `%s` in %s is inside a try block' % (what, p.split('::')[-1]), not ent['unguarded'],
               'a throwing element move / comparator at line(s) %s unwinds out of the aggregator handler: handler_busy stays set, the other '
               'operations of the batch never get a status, every later operation on the queue hangs'
               % sorted(set(ent['unguarded'])), key_extra='%s|%s' % (p, what))


def d4_heap(facts, rep):
    for fn in facts.get(CPQ + 'handle_operations'):
        hp = calls_named(fn, ('heapify',))

        def unheaped(a, truth):
            n = fn.n(fn.strip(a))
            return n.get('k') == 'binop' and n['op'] == '<' and last_member(fn, n['l']) == 'mark' and truth
        # the final check: on its true edge heapify is always called
        ue = [e for e in edges_where(fn, unheaped)]
        ok = bool(hp)
        finals = []
        for (b, si) in ue:
            tgt = fn.blocks[b]['succ'][si]
            if every_path_passes(fn, (tgt, -1), lambda p, e: p in set(c[0] for c in hp))[0]:
                finals.append((b, si))
        ok = ok and bool(finals)
        # and every path to the exit passes that final check block
        fb = set(b for b, si in finals)
        ok2 = True
        for b in fb:
            reached, ex, par = fn.walk('entry', stop_elem=lambda p, e: p[0] == b)
            ok2 = ok2 and not ex
            break
        rep.ob('D4', 'K4', fn, 'before the handler returns, leftover pushed elements are merged into the heap', ok and ok2,
               'the next batch can pop from a vector that is not a heap')
    d4_sift_bound(facts, rep)
    rep.floor('D4', 3, 'heapify + sift-down bounds')


def d4_sift_bound(facts, rep):
    """data[0, mark) is a heap, data[mark, size) are pushed elements that are not merged yet.  reheap() re-inserts the last
    element by sifting down from the root: every element it looks at as a child must lie inside the heap part, i.e. every
    read data[E] inside the sift-down loop is dominated by an edge `E < mark` (for a plain index variable: a comparison of
    that variable, or of the variable it was copied from, against mark).  A bound taken from data.size() lets the
    sift-down walk into the unmerged tail and move one of its elements below a smaller parent."""
    sift_bound(facts, rep, facts.get(CPQ + 'reheap'), 'D4',
               lambda fn, node: node.get('op') == '[]' and last_member(fn, node.get('obj', -1)) == 'data' and bool(node.get('a')),
               'data[...]')


def sift_bound(facts, rep, fns, clause, is_access, what):
    """shared by concurrent_priority_queue::reheap (C13) and the flow graph's priority_queue_node::reheap (C15): `is_access(fn,
    call node)` recognises a read of the element at index node['a'][0]"""
    from engine.rules import expr_key
    for fn in fns:
        defs = Defs(fn)

        def is_mark(x):
            n = fn.n(fn.strip(x))
            if n.get('k') == 'member' and n.get('n') == 'mark':
                return True
            if n.get('k') == 'var' and 'glob' not in n:
                vals = [val for (v, dn), val in defs.value_of.items() if v == n['v']]
                return bool(vals) and all(val is not None and is_mark(val) for val in vals)
            return False

        def var_of(x):
            n = fn.n(fn.strip(x))
            return n['v'] if n.get('k') == 'var' else None
        # copy classes of index variables: target = child
        cls = {}
        for (v, dn), val in defs.value_of.items():
            if val is not None and var_of(val) is not None:
                cls.setdefault(v, set()).add(var_of(val))
        changed = True
        while changed:       # transitive: cur_pos = target, target = child
            changed = False
            for v in list(cls):
                for w in list(cls[v]):
                    extra = cls.get(w, set()) - cls[v] - {v}
                    if extra:
                        cls[v] |= extra
                        changed = True
        mark_edges = []      # (edge, key of the bounded expression)

        def bounded(a, truth):
            n = fn.n(fn.strip(a))
            if n.get('k') == 'binop' and n['op'] == '<' and truth and is_mark(n['r']):
                mark_edges.append(expr_key(fn, n['l']))
                return True
            return False
        all_edges = edges_where(fn, bounded)
        # accesses data[E] inside the loop (they can reach themselves again)
        nacc = 0
        for pos, s, node, d in calls(fn):
            if not is_access(fn, node):
                continue
            reached, ex, par = fn.walk(pos)
            if pos not in reached:
                continue            # not in a loop: the final placement data[cur_pos] = data.back()
            E = node['a'][0]
            ek = expr_key(fn, E)
            ev = var_of(E)

            def edge_for(a, truth, ek=ek, ev=ev):
                n = fn.n(fn.strip(a))
                if not (n.get('k') == 'binop' and n['op'] == '<' and truth and is_mark(n['r'])):
                    return False
                lk = expr_key(fn, n['l'])
                if lk == ek:
                    return True
                lv = var_of(n['l'])
                return ev is not None and lv is not None and (lv == ev or lv in cls.get(ev, ()) or ev in cls.get(lv, ()))
            ok, wit = dominated_by_edges(fn, pos, edges_where(fn, edge_for))
            nacc += 1
            rep.ob(clause, 'K4', fn, 'the sift-down reads %s at line %s only below mark' % (what, node['ln']), ok,
                   'the index is not bounded by mark on every path: the sift-down can pick an element of the unmerged tail as a '
                   'child and move it into the heap under a smaller parent; a later try_pop then returns a non-maximal element (' + wit + ')',
                   ln=node['ln'], key_extra='%s' % node['ln'])
        if nacc < 3:
            raise AnalysisBroken('%s: only %d element reads found inside the sift-down loop' % (fn.p, nacc))
