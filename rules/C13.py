"""C13 - concurrent_priority_queue is a linearizable priority queue.  NARROW CLAIM (DESIGN.md section 4, C13)"""
from engine.facts import AnalysisBroken, atomic_op, atomic_ops, has_acquire, has_release
from engine.rules import (calls, calls_named, every_path_passes, last_member, is_call_to, Defs, resolve_cond_source, oname,
                          edges_where, dominated_by_edges, member_accesses, root_of, assignments, value_root, atomics_on)
from rules.common import k8_handler

UNITS = ['drivers/containers.cpp']
D1N = 'tbb::detail::d1::'
AG = D1N + 'aggregator_generic::'
CPQ = D1N + 'concurrent_priority_queue::'

EXPLANATION = (
    'Narrow claim.  Decides: D1 aggregator protocol: an operation is pushed onto the pending list by compare-exchange, only the '
    'thread that found the list empty becomes the handler, the handler waits for handler_busy, takes the whole list by '
    'exchange(nullptr), runs the handler and releases handler_busy with release order; submitters wait on their status with '
    'acquire; D2 every batched operation is completed exactly once: on every path of the handler, each operation taken from the '
    'list gets a non-zero status (release) or is deferred to the second pass, which completes it; D3 a throwing copy/move fails '
    'only its own operation: the push is inside try, the handler stores FAILED for that operation and continues, push() throws '
    'only when its own status is FAILED; D4 the heap is re-established (heapify) before the handler returns whenever unheapified '
    'elements remain.  "Highest priority at the linearization point" and the heap arithmetic are NOT decided.')
EXPLANATION += ' Added after the seeded-change rounds: ' + 'D3 also: every user operation (element assignment / construction, comparator call) inside the aggregator handler closure is inside a try block (violated on the pinned tree for the pop path and the heap maintenance: known findings); D4 also: the sift-down of reheap reads data[] only below mark.'
EXPLANATION += ' Added in the third session (round-3 seeds and the findings they led to): ' + 'D2 also: an operation is not touched any more once its status has been published (the link to the next operation is read before).'
EXPLANATION += ' Added later in the fourth round: ' + "D5: sibling agreement with the copy constructor - every function that takes `data` over from another queue takes mark, my_size and my_compare as well, and a function that moves `data` out of its source resets the source's mark and my_size (helpers called on the source are followed)."
ASSUMPTIONS = ['instantiations: concurrent_priority_queue<int>, <string>']
ND = ['a successful try_pop returns a highest-priority element at its linearization point', 'heap arithmetic (heapify / reheap)']


def run(facts, rep):
    d1_aggregator(facts, rep)
    d2_complete(facts, rep)
    d3_exceptions(facts, rep)
    d4_heap(facts, rep)
    d5_takeover_is_complete(facts, rep)


def ops_on(fn, member, kinds=None):
    return [(p, o) for p, o in atomic_ops(fn) if o['kind'] != 'fence' and last_member(fn, o['obj']) == member and (kinds is None or o['kind'] in kinds)]


def d1_aggregator(facts, rep):
    for fn in facts.get(AG + 'execute'):
        defs = Defs(fn)
        ws = ops_on(fn, 'pending_operations', ('store', 'rmw', 'cas'))
        rep.ob('D1', 'K1', fn, 'an operation is appended to the pending list by compare-exchange', bool(ws) and all(o['kind'] == 'cas' for _, o in ws),
               ', '.join(o['name'] for _, o in ws))
        nx = ops_on(fn, 'next', ('store',))
        ok = bool(nx) and bool(ws) and all(every_path_passes(fn, 'entry', lambda p, e: p in set(q for q, _ in nx), end=cp)[0] for cp, _ in ws)
        rep.ob('D1', 'K4', fn, 'op->next is set before the operation becomes visible', ok, 'CAS before the link store')
        sh = calls_named(fn, ('start_handle_operations',))

        # the previous list head is the CAS's `expected` argument: null => this thread is the first
        head_v = set(fn.n(fn.strip(o['expected'])).get('v') for _, o in ws if o['kind'] == 'cas')

        def first(a, truth):
            n = fn.n(fn.strip(a))
            return (not truth) and n.get('k') == 'var' and n.get('v') in head_v
        fe = edges_where(fn, first)
        ok = bool(sh) and bool(fe) and all(dominated_by_edges(fn, c[0], fe)[0] for c in sh)
        rep.ob('D1', 'K4', fn, 'only the thread that found the list empty becomes the handler', ok, 'handler election changed')
        for (b, si) in fe:
            ok = every_path_passes(fn, (fn.blocks[b]['succ'][si], -1), lambda p, e: p in set(c[0] for c in sh))[0]
            rep.ob('D1', 'K4', fn, 'the thread that found the list empty always handles it', ok, 'the first submitter may skip handling: everybody waits',
                   key_extra='must')
        w = [c for c in calls_named(fn, ('spin_wait_while_eq',)) if c[2].get('a') and last_member(fn, c[2]['a'][0]) == 'status']
        ok = bool(w) and all(len(c[2]['a']) < 3 or (fn.cv(c[2]['a'][2]) or 0) in (2, 4, 5) for c in w)
        rep.ob('D1', 'K1', fn, 'a submitter waits for its status with acquire', ok, 'status wait missing or relaxed')
    for fn in facts.get(AG + 'start_handle_operations'):
        w = [c for c in calls_named(fn, ('spin_wait_until_eq',)) if c[2].get('a') and last_member(fn, c[2]['a'][0]) == 'handler_busy']
        st = ops_on(fn, 'handler_busy', ('store', 'rmw'))
        x = [(p, o) for p, o in ops_on(fn, 'pending_operations') if o['kind'] == 'rmw' and o['name'] == 'exchange']
        calls_h = [c for c in calls(fn) if c[2].get('op') == '()']
        set1 = [(p, o) for p, o in st if fn.cv(o.get('val', -1)) == 1]
        set0 = [(p, o) for p, o in st if fn.cv(o.get('val', -1)) == 0]
        ok = bool(w) and bool(set1) and bool(x) and bool(calls_h) and bool(set0) and \
            every_path_passes(fn, 'entry', lambda p, e: p in set(c[0] for c in w), end=set1[0][0])[0] and \
            every_path_passes(fn, 'entry', lambda p, e: p == set1[0][0], end=x[0][0])[0] and \
            every_path_passes(fn, 'entry', lambda p, e: p == x[0][0], end=calls_h[0][0])[0] and \
            every_path_passes(fn, 'entry', lambda p, e: p == calls_h[0][0], end=set0[0][0])[0] and \
            every_path_passes(fn, 'entry', lambda p, e: p == set0[0][0])[0]
        rep.ob('D1', 'K4', fn, 'handler: wait busy==0, set busy, take the list by exchange, handle, clear busy', ok, 'handler sequence changed')
        rep.ob('D1', 'K1', fn, 'handler_busy is released with release order', bool(set0) and all(has_release(o['order'] or 0) for _, o in set0),
               ', '.join(oname(o['order']) for _, o in set0))
    rep.floor('D1', 6, 'aggregator protocol')


def d2_complete(facts, rep):
    n = 0
    for fn in facts.get(CPQ + 'handle_operations'):
        n += k8_handler(facts, rep, 'D2', fn)
    if n < 3:
        raise AnalysisBroken('cpq handler: only %d iteration/handler entry points found' % n)
    rep.floor('D2', 3, 'handler passes + exception handler')


def d3_exceptions(facts, rep):
    for fn in facts.get(CPQ + 'handle_operations'):
        pb = [c for c in calls_named(fn, ('push_back', 'push_back_helper'))]
        ok = bool(pb) and all(c[2].get('tr') is not None for c in pb)
        rep.ob('D3', 'K9', fn, 'element copies/moves into the heap storage happen inside try', ok,
               'a throwing copy constructor unwinds out of the handler: every batched operation hangs')
        # ... and the try stops EVERY exception: the element type is the user's, its copy / move may throw anything.  A handler
        # list without catch(...) lets the others escape from the aggregator handler (handler_busy stays set, the batch is dropped).
        trys = set(c[2].get('tr') for c in pb if c[2].get('tr') is not None)
        for t in sorted(trys):
            hs = [nd for nd in fn.nodes if nd and nd.get('k') == 'catch' and nd.get('try') == t]
            rep.ob('D3', 'K9', fn, 'the try around the element copy has a catch(...) handler', any(h.get('ell') for h in hs),
                   'handlers: %s - an exception of another type thrown by the element\'s copy / move constructor escapes the handler: it '
                   'surfaces in whichever thread runs the batch, the submitter spins for ever and handler_busy stays set'
                   % [h.get('ty') or '...' for h in hs], key_extra='catchall|%s' % t)
        # the catch handler writes only the status of the current operation (through tmp)
        for b, blk in fn.blocks.items():
            lab = blk.get('label')
            if not lab or 'catch' not in lab:
                continue
            sts = [atomic_op(fn, s2) for pos2, s2, nd2 in fn.stmt_elems(('call',)) if nd2.get('ca') is not None and atomic_op(fn, s2)
                   and last_member(fn, atomic_op(fn, s2)['obj']) == 'status']
            from rules.common import handler_iterations
            cur = set()          # the "current operation" variables: assigned from the list variable before it advances
            lists = set(v for _, _, v, _ in handler_iterations(fn))
            for p2, s3, l2, r2 in assignments(fn):
                if fn.n(fn.strip(r2)).get('k') == 'var' and fn.n(fn.strip(r2)).get('v') in lists and fn.n(fn.strip(l2)).get('k') == 'var':
                    cur.add(fn.n(fn.strip(l2))['v'])
            ok = len(sts) == 1 and fn.n(root_of(fn, sts[0]['obj'])).get('v') in cur and fn.cv(sts[0].get('val', -1)) not in (None, 0, 1)
            rep.ob('D3', 'K9', fn, 'the exception handler fails exactly the current operation', ok,
                   'handler stores: %s' % [(o['path'], fn.cv(o.get('val', -1))) for o in sts])
    npush = 0
    for fn in facts.get(CPQ + 'push'):
        th = calls_named(fn, ('throw_exception',))
        defs = Defs(fn)

        def failed(a, truth):
            n = fn.n(fn.strip(a))
            if n.get('k') != 'binop' or n['op'] != '==' or not truth:
                return False
            has_status = any(fn.nodes[x].get('k') == 'member' and fn.nodes[x]['n'] == 'status' for x in fn.subtree(n['s']))
            vals = [fn.cv(n['l']), fn.cv(n['r'])]
            return has_status and 2 in vals
        fe = edges_where(fn, failed)
        ok = bool(th) and bool(fe) and all(dominated_by_edges(fn, c[0], fe)[0] for c in th)
        rep.ob('D3', 'K4', fn, 'push() throws only when its own operation FAILED', ok, 'throw not tied to the own status', key_extra=str(fn.l0))
        npush += 1
    d3_user_ops_in_handler(facts, rep)
    rep.floor('D3', 5, 'exception isolation')


def d3_user_ops_in_handler(facts, rep):
    """Inside the aggregator handler (handle_operations and the heap maintenance it calls) an exception that escapes leaves
    `handler_busy` set and the rest of the batch without a status: every thread with an operation in the batch and every later
    operation spins forever, and the exception surfaces in whichever thread happened to run the handler.  So every user
    operation in that closure - an operation on a value of the element type or a call of the user's comparator (template-
    parameter typed, `tp`) - must be inside a try block.  One obligation per function and kind of operation."""
    from rules.common import user_op
    roots = facts.get(CPQ + 'handle_operations')
    closure = {}
    work = list(roots)
    while work:
        fn = work.pop()
        if fn.u in closure:
            continue
        closure[fn.u] = fn
        for pos, sx, node, d in calls(fn):
            g = facts.fns.get(node.get('fn'))
            if g is not None and g.cls == fn.cls and g.u not in closure:
                work.append(g)
    seen = {}
    for fn in closure.values():
        for b, i, e in fn.iter_elems():
            if not isinstance(e, int) or not user_op(fn, e):
                continue
            nd = fn.nodes[e]
            d = fn.callee(e) if nd.get('k') in ('call', 'ctor') else None
            what = (d or {}).get('n') or nd.get('op') or nd.get('k')
            if nd.get('k') == 'binop' and nd['op'] != '=':
                continue        # index / size arithmetic on size_type (a typedef that goes through the allocator parameter)
            if nd.get('k') == 'unop':
                continue
            what = {'operator()': 'comparator call', '=': 'element assignment', 'operator=': 'element assignment',
                    '(ctor)': 'element construction'}.get(what, what)
            key = (fn.p, what)
            ent = seen.setdefault(key, {'fn': fn, 'unguarded': [], 'n': 0})
            ent['n'] += 1
            if nd.get('tr') is None:
                ent['unguarded'].append(nd.get('ln'))
    if not seen:
        raise AnalysisBroken('no user operations found in the concurrent_priority_queue handler closure')
    for (p, what), ent in sorted(seen.items()):
        fn = ent['fn']
        rep.ob('D3', 'K9', fn, 'user operation `%s` in %s is inside a try block' % (what, p.split('::')[-1]), not ent['unguarded'],
               'a throwing element move / comparator at line(s) %s unwinds out of the aggregator handler: handler_busy stays set, the other '
               'operations of the batch never get a status, every later operation on the queue hangs'
               % sorted(set(ent['unguarded'])), key_extra='%s|%s' % (p, what))


def d4_heap(facts, rep):
    for fn in facts.get(CPQ + 'handle_operations'):
        hp = calls_named(fn, ('heapify',))

        def unheaped(a, truth):
            n = fn.n(fn.strip(a))
            return n.get('k') == 'binop' and n['op'] == '<' and last_member(fn, n['l']) == 'mark' and truth
        # the final check: on its true edge heapify is always called
        ue = [e for e in edges_where(fn, unheaped)]
        ok = bool(hp)
        finals = []
        for (b, si) in ue:
            tgt = fn.blocks[b]['succ'][si]
            if every_path_passes(fn, (tgt, -1), lambda p, e: p in set(c[0] for c in hp))[0]:
                finals.append((b, si))
        ok = ok and bool(finals)
        # and every path to the exit passes that final check block
        fb = set(b for b, si in finals)
        ok2 = True
        for b in fb:
            reached, ex, par = fn.walk('entry', stop_elem=lambda p, e: p[0] == b)
            ok2 = ok2 and not ex
            break
        rep.ob('D4', 'K4', fn, 'before the handler returns, leftover pushed elements are merged into the heap', ok and ok2,
               'the next batch can pop from a vector that is not a heap')
    d4_sift_bound(facts, rep)
    rep.floor('D4', 3, 'heapify + sift-down bounds')


def d4_sift_bound(facts, rep):
    """data[0, mark) is a heap, data[mark, size) are pushed elements that are not merged yet.  reheap() re-inserts the last
    element by sifting down from the root: every element it looks at as a child must lie inside the heap part, i.e. every
    read data[E] inside the sift-down loop is dominated by an edge `E < mark` (for a plain index variable: a comparison of
    that variable, or of the variable it was copied from, against mark).  A bound taken from data.size() lets the
    sift-down walk into the unmerged tail and move one of its elements below a smaller parent."""
    sift_bound(facts, rep, facts.get(CPQ + 'reheap'), 'D4',
               lambda fn, node: node.get('op') == '[]' and last_member(fn, node.get('obj', -1)) == 'data' and bool(node.get('a')),
               'data[...]')


def sift_bound(facts, rep, fns, clause, is_access, what):
    """shared by concurrent_priority_queue::reheap (C13) and the flow graph's priority_queue_node::reheap (C15): `is_access(fn,
    call node)` recognises a read of the element at index node['a'][0]"""
    from engine.rules import expr_key
    for fn in fns:
        defs = Defs(fn)

        def is_mark(x):
            n = fn.n(fn.strip(x))
            if n.get('k') == 'member' and n.get('n') == 'mark':
                return True
            if n.get('k') == 'var' and 'glob' not in n:
                vals = [val for (v, dn), val in defs.value_of.items() if v == n['v']]
                return bool(vals) and all(val is not None and is_mark(val) for val in vals)
            return False

        def var_of(x):
            n = fn.n(fn.strip(x))
            return n['v'] if n.get('k') == 'var' else None
        # copy classes of index variables: target = child
        cls = {}
        for (v, dn), val in defs.value_of.items():
            if val is not None and var_of(val) is not None:
                cls.setdefault(v, set()).add(var_of(val))
        changed = True
        while changed:       # transitive: cur_pos = target, target = child
            changed = False
            for v in list(cls):
                for w in list(cls[v]):
                    extra = cls.get(w, set()) - cls[v] - {v}
                    if extra:
                        cls[v] |= extra
                        changed = True
        mark_edges = []      # (edge, key of the bounded expression)

        def bounded(a, truth):
            n = fn.n(fn.strip(a))
            if n.get('k') == 'binop' and n['op'] == '<' and truth and is_mark(n['r']):
                mark_edges.append(expr_key(fn, n['l']))
                return True
            return False
        all_edges = edges_where(fn, bounded)
        # accesses data[E] inside the loop (they can reach themselves again)
        nacc = 0
        for pos, s, node, d in calls(fn):
            if not is_access(fn, node):
                continue
            reached, ex, par = fn.walk(pos)
            if pos not in reached:
                continue            # not in a loop: the final placement data[cur_pos] = data.back()
            E = node['a'][0]
            ek = expr_key(fn, E)
            ev = var_of(E)

            def edge_for(a, truth, ek=ek, ev=ev):
                n = fn.n(fn.strip(a))
                if not (n.get('k') == 'binop' and n['op'] == '<' and truth and is_mark(n['r'])):
                    return False
                lk = expr_key(fn, n['l'])
                if lk == ek:
                    return True
                lv = var_of(n['l'])
                return ev is not None and lv is not None and (lv == ev or lv in cls.get(ev, ()) or ev in cls.get(lv, ()))
            ok, wit = dominated_by_edges(fn, pos, edges_where(fn, edge_for))
            nacc += 1
            rep.ob(clause, 'K4', fn, 'the sift-down reads %s at line %s only below mark' % (what, node['ln']), ok,
                   'the index is not bounded by mark on every path: the sift-down can pick an element of the unmerged tail as a '
                   'child and move it into the heap under a smaller parent; a later try_pop then returns a non-maximal element (' + wit + ')',
                   ln=node['ln'], key_extra='%s' % node['ln'])
        if nacc < 3:
            raise AnalysisBroken('%s: only %d element reads found inside the sift-down loop' % (fn.p, nacc))


def d5_takeover_is_complete(facts, rep):
    """The state of a concurrent_priority_queue is the quadruple (data, mark, my_size, my_compare): data is a heap ORDERED BY
    my_compare up to mark.  Sibling agreement with the copy constructor, which takes all four from its source:
    (a) every other function that takes `data` over from another queue (copy / move assignment, swap) takes the other three as
        well - a heap adopted without its comparator is popped in the wrong order as soon as the comparators differ in state;
    (b) a function that moves `data` out of its source (move constructor, move assignment) leaves the source's mark and my_size
        in agreement with the now empty vector - otherwise the moved-from queue reports a size it does not have and, reused
        without clear(), sifts through data[] up to a stale mark (reads past the end of the vector)."""
    cls = D1N + 'concurrent_priority_queue'
    ctors = facts.by_p.get(cls + '::(ctor)', [])

    def own_param(f):
        ps = [p for p in f.d.get('params', []) if 'concurrent_priority_queue' in (p.get('ty') or '')]
        return ps[0] if ps else None
    copy = [f for f in ctors if own_param(f) and len(f.d.get('params', [])) == 1 and 'const' in own_param(f)['ty'] and '&&' not in own_param(f)['ty']]
    if not copy:
        raise AnalysisBroken('concurrent_priority_queue: copy constructor not found')
    state = set()
    for f in copy:
        pv = own_param(f)['v']
        for b, i, e in f.iter_elems():
            if isinstance(e, dict) and 'i' in e and e.get('s', -1) >= 0 and \
                    any(f.nodes[x].get('k') == 'var' and f.nodes[x].get('v') == pv for x in f.subtree(e['s'])):
                state.add(e['i'])
    if not {'data', 'my_compare'} <= state:
        raise AnalysisBroken('concurrent_priority_queue: the copy constructor takes %s from its source (expected data, mark, my_size, my_compare)' % sorted(state))
    n = 0
    for f in sorted(facts.fns.values(), key=lambda g: g.q):
        if (f.cls or '') != cls or f in copy or not own_param(f):
            continue
        pv = own_param(f)['v']
        rvalue = '&&' in own_param(f)['ty']

        def from_other(root):
            return root is not None and root >= 0 and any(f.nodes[x].get('k') == 'var' and f.nodes[x].get('v') == pv for x in f.subtree(root))
        taken, src_written = set(), set()
        for b, i, e in f.iter_elems():
            if isinstance(e, dict) and 'i' in e and from_other(e.get('s', -1)):
                taken.add(e['i'])
        for pos, s, l, r in assignments(f):
            lm = f.n(f.strip(l))
            if lm.get('k') == 'member' and f.n(f.strip(lm.get('base', -1))).get('k') == 'this' and from_other(r):
                taken.add(lm['n'])
            if lm.get('k') == 'member' and f.n(f.strip(lm.get('base', -1))).get('v') == pv:
                src_written.add(lm['n'])
        for pos, s, node, d in calls(f):
            nm = (d or {}).get('n')
            args = list(node.get('a', [])) + ([node['obj']] if node.get('obj', -1) >= 0 else [])
            mems_this = [f.nodes[x]['n'] for a in args for x in f.subtree(a) if f.nodes[x].get('k') == 'member' and 'fn' not in f.nodes[x] and
                         f.n(f.strip(f.nodes[x].get('base', -1))).get('k') == 'this']
            mems_other = [f.nodes[x]['n'] for a in args for x in f.subtree(a) if f.nodes[x].get('k') == 'member' and 'fn' not in f.nodes[x] and
                          f.n(f.strip(f.nodes[x].get('base', -1))).get('v') == pv]
            if nm == 'swap' and mems_this and mems_other:
                taken |= set(mems_this)
                src_written |= set(mems_other)
            if nm in ('store', 'exchange') and mems_this and any(from_other(a) for a in node.get('a', [])):
                taken |= set(mems_this)
            if nm in ('store', 'exchange') and mems_other and not mems_this:
                src_written |= set(mems_other)
            # a helper method called ON the source (other.reset...()): the members of *this it writes are members of the source
            if node.get('obj', -1) >= 0 and f.n(f.strip(node['obj'])).get('v') == pv:
                h = facts.fns.get(node.get('fn'))
                if h is not None and (h.cls or '') == cls:
                    for p2, s2, l2, r2 in assignments(h):
                        lm2 = h.n(h.strip(l2))
                        if lm2.get('k') == 'member' and h.n(h.strip(lm2.get('base', -1))).get('k') == 'this':
                            src_written.add(lm2['n'])
                    for p2, o2 in atomic_ops(h):
                        if o2['kind'] in ('store', 'rmw') and h.n(h.strip(h.n(h.strip(o2['obj'])).get('base', -1))).get('k') == 'this':
                            src_written.add(last_member(h, o2['obj']))
        if 'data' not in taken:
            continue
        n += 1
        missing = sorted(state - taken)
        rep.ob('D5', 'K7', f, 'a function that takes the heap of another queue over takes the whole state (data, mark, my_size, my_compare)',
               not missing, 'takes data but not %s: the adopted heap is ordered by the comparator of the other queue / the bookkeeping does not '
               'belong to it - pops come out in the wrong order' % ', '.join(missing), key_extra='takeover|%s' % ('rv' if rvalue else 'lv'))
        moved = rvalue and any((d or {}).get('n') == 'move' and any(f.nodes[x].get('n') == 'data' for a in node.get('a', []) for x in f.subtree(a))
                               for pos, s, node, d in calls(f))
        if moved:
            left = sorted({'mark', 'my_size'} - src_written)
            rep.ob('D5', 'K7', f, 'a function that moves the heap out of its source leaves mark and my_size of the source in agreement with it',
                   not left, 'the source keeps its old %s: size() of the moved-from queue reports elements it does not have, and a reused '
                   'moved-from queue sifts through data[] up to the stale mark (past the end of the vector)' % ', '.join(left),
                   key_extra='moved-from|%s' % f.kind)
    if n < 3:
        raise AnalysisBroken('concurrent_priority_queue: functions taking `data` over from another queue: %d (expected >= 3)' % n)
