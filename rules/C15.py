"""C15 - flow-graph buffering, ordering, joining and limiting nodes keep their contracts.  (DESIGN.md section 4, C15)"""
from engine.facts import AnalysisBroken, atomic_op, atomic_ops, has_acquire, has_release
from engine.rules import (calls, calls_named, every_path_passes, last_member, is_call_to, Defs, resolve_cond_source, oname,
                          edges_where, dominated_by_edges, member_accesses, root_of, assignments, value_root, atomics_on,
                          elem_fn_uid, access_kind, lockset, constant_flag_states)

UNITS = ['drivers/flow.cpp']
D2 = 'tbb::detail::d2::'
LIM = D2 + 'limiter_node::'

EXPLANATION = (
    'Decides: D1 limiter_node: my_count / my_tries / my_future_decrement are accessed only under my_mutex (check_conditions() '
    'only with the lock held), every ++my_tries is on the "my_count + my_tries < my_threshold" edge and is matched by exactly one '
    '--my_tries on every path, ++my_count happens only on the accepted-put edge, a successful try_reserve is followed by exactly '
    'one try_consume (accepted) or try_release (rejected); D2 reserving join is all-or-nothing: join_helper<N>::reserve releases '
    'its own reservation exactly when the deeper reserve failed, and the join forwards tuple_accepted only on the accepted edge and '
    'tuple_rejected otherwise; D3 buffers: queue_node pops/reserves only the head item and only when nothing is reserved and the '
    'head is valid, sequencer_node rejects tags below my_head and grows before placing, priority_queue_node keeps my_reserved '
    'paired over reserve/consume/release and re-pushes the reserved item on release, order() runs after every batch; D4 '
    'overwrite/write_once: buffer and validity flag only under my_mutex, write_once writes only when not yet valid, a new '
    'successor is given the current value; D5 routing: split_node / indexer_node port i forwards element / tag i.  FIFO / '
    'sequence / priority order as properties of histories and the item-buffer ring arithmetic are NOT decided.')
EXPLANATION += ' Added after the seeded-change rounds: ' + 'D1 also: decrement_counter reads my_count only before it writes it; whenever my_count can go down the admission condition is evaluated again on every path; D2 also: hash_buffer::insert_with_key leaves the buffer untouched on the paths that return false, and the status of a key-matching put is derived from the insertion result.'
EXPLANATION += ' Added in the third session (round-3 seeds and the findings they led to): ' + 'D3 also: priority_queue_node::reheap looks at children below mark only (rule shared with C13) and every copy constructor takes user-supplied state (functors, parameters) from its source.'
EXPLANATION += ' Added in the fifth seeding round: ' + 'D3 also: in sequencer_node::internal_push every tag + 1 (other than the wrap test itself) is dominated by an edge on which the sequence number is known to have a successor.'
EXPLANATION += ' D1 also: the invariant my_future_decrement <= my_tries of limiter_node is re-established (a clamp, inline or through a helper whose only assignment is that clamp) on every path after an increase of my_future_decrement and after every decrease of my_tries; the lock rule derives its always-called-under-lock helpers from the code.'
ASSUMPTIONS = ['node kinds instantiated in drivers/flow.cpp', 'aggregator serialises buffer handlers (C13-D1, C14-D1/D2)']
ND = ['FIFO / sequence / priority order as history properties', 'item-buffer ring arithmetic', 'key-matching counting']
LOCKCLS = lambda c: c.endswith('scoped_lock')   # noqa: E731
LIM_FIELDS = ('my_count', 'my_tries', 'my_future_decrement')


def run(facts, rep):
    d1_limiter(facts, rep)
    d1_future_decrement_is_bounded_by_the_puts_in_flight(facts, rep)
    d2_join(facts, rep)
    d2_rejection_is_clean(facts, rep)
    d3_buffers(facts, rep)
    d4_overwrite(facts, rep)
    d5_routing(facts, rep)


def incdec(fn, field, op):
    out = []
    for pos, s, node in fn.stmt_elems(('unop',)):
        if node['op'] == op and last_member(fn, node['sub']) == field:
            out.append((pos, s, node))
    return out


def d1_limiter(facts, rep):
    n = 0
    lim_fns = [f for f in facts.find(r'^tbb::detail::d2::limiter_node::') if f.kind not in ('ctor', 'dtor')]
    # "always called under lock" helpers: methods that touch the counters, take no lock themselves and are only called from
    # other methods of the node - their obligation moves to every call site (check_conditions, trim_future_decrement, ...)
    helpers = set()
    for f in lim_fns:
        if f.p.endswith('reset_node') or f.p.endswith('reset_receiver'):
            continue
        touches = [x for x in member_accesses(f, LIM_FIELDS) if x[2].get('cls', '').endswith('limiter_node')]
        _, info_ = lockset(f, LOCKCLS)
        callers = facts.callers(f.u)
        if touches and not info_ and callers and all(c[0].p.startswith(LIM) for c in callers):
            helpers.add(f.p.split('::')[-1])
    if 'check_conditions' not in helpers:
        raise AnalysisBroken('limiter_node::check_conditions is no longer a lock-requiring helper')
    for fn in lim_fns:
        if fn.p.endswith('reset_node') or fn.p.endswith('reset_receiver'):
            continue
        acc = [x for x in member_accesses(fn, LIM_FIELDS) if x[2].get('cls', '').endswith('limiter_node')]
        cc = calls_named(fn, tuple(sorted(helpers)))
        if not acc and not cc:
            continue
        if fn.p.split('::')[-1] in helpers:
            # requires the lock at its call sites (checked there); calls of other helpers from inside a helper inherit it
            continue
        before, info = lockset(fn, LOCKCLS)
        locks = set(v for v, i in info.items() if i['mutex'] == 'my_mutex')
        for pos, s, node, kind in acc:
            n += 1
            rep.ob('D1', 'K5', fn, 'limiter %s is accessed under my_mutex (line %s)' % (node['n'], node['ln']), bool(before.get(pos, frozenset()) & locks),
                   '%s %s without my_mutex' % (node['n'], kind), ln=node['ln'], key_extra='%s.%s' % (node['ln'], node['n']))
        for pos, s, node, d in cc:
            hn = (d or {}).get('n') or 'helper'
            rep.ob('D1', 'K5', fn, '%s() is called with my_mutex held (line %s)' % (hn, node['ln']), bool(before.get(pos, frozenset()) & locks),
                   '%s() without the lock' % hn, ln=node['ln'], key_extra=('cc' if hn == 'check_conditions' else hn) + str(node['ln']))
    for name in ('forward_task', 'try_put_task_impl'):
        for fn in facts.get(LIM + name):
            defs = Defs(fn)
            inc = incdec(fn, 'my_tries', '++')
            dec = incdec(fn, 'my_tries', '--')
            if not inc:
                raise AnalysisBroken('limiter_node::%s: ++my_tries not found' % name)

            def below(a, truth):
                n = fn.n(fn.strip(a))
                if n.get('k') == 'call' and (fn.callee(n['s']) or {}).get('n') == 'check_conditions':
                    return truth
                if n.get('k') == 'binop' and n['op'] in ('<', '>='):
                    has = set(fn.nodes[x]['n'] for x in fn.subtree(n['s']) if fn.nodes[x].get('k') == 'member')
                    if {'my_count', 'my_tries', 'my_threshold'} <= has:
                        return truth == (n['op'] == '<')
                return False
            e = edges_where(fn, below)
            decp = set(d[0] for d in dec)
            for pos, s, node in inc:
                ok, wit = dominated_by_edges(fn, pos, e)
                rep.ob('D1', 'K4', fn, '++my_tries only while my_count + my_tries < my_threshold', ok, 'a put attempt is admitted above the threshold: ' + wit,
                       ln=node['ln'])
                ok2, wit2 = every_path_passes(fn, pos, lambda p, el: p in decp)
                # exactly one: after a --my_tries no second one is reachable
                twice = any(any(q in decp and q != dp for q in fn.walk(dp)[0]) for dp in decp)
                rep.ob('D1', 'K3', fn, 'every admitted attempt is retired by exactly one --my_tries on every path', ok2 and not twice,
                       'my_tries leaks (limiter blocks forever) or is decremented twice (threshold exceeded): ' + wit2, ln=node['ln'], key_extra='pair')
            cnt = incdec(fn, 'my_count', '++')
            tp = set(c[1] for c in calls_named(fn, ('try_put_task',)))

            def accepted(a, truth):
                n = fn.n(fn.strip(a))
                src = None
                if n.get('k') == 'binop' and n['op'] in ('!=', '==') and (fn.n(fn.strip(n['r'])).get('null') or fn.n(fn.strip(n['l'])).get('null')):
                    other = n['l'] if fn.n(fn.strip(n['r'])).get('null') else n['r']
                    src = fn.strip(resolve_cond_source(fn, defs, other))
                    return src in tp and (truth == (n['op'] == '!='))
                src = fn.strip(resolve_cond_source(fn, defs, a))
                return src in tp and truth
            ae = edges_where(fn, accepted)
            for pos, s, node in cnt:
                ok, wit = dominated_by_edges(fn, pos, ae)
                rep.ob('D1', 'K4', fn, '++my_count only when a successor accepted the message', ok, 'count raised for a rejected put: ' + wit, ln=node['ln'],
                       key_extra='cnt')
    for fn in facts.get(LIM + 'forward_task'):
        defs = Defs(fn)
        rs = set(c[1] for c in calls_named(fn, ('try_reserve',)))
        got = edges_where(fn, lambda a, truth: truth and any(x in rs for x in fn.subtree(fn.strip(resolve_cond_source(fn, defs, a)))))
        fin = calls_named(fn, ('try_consume', 'try_release'))
        finp = set(c[0] for c in fin)
        ok = bool(got) and bool(fin)
        # `reserved = true; ... if (reserved) try_release();` : prune the branch edges that contradict the flag's known value
        for (b, si) in got:
            infeasible = constant_flag_states(fn, start_block=fn.blocks[b]['succ'][si])     # only paths through this edge
            okp, wit = every_path_passes(fn, (fn.blocks[b]['succ'][si], -1), lambda p, e: p in finp,
                                         stop_edge=lambda bb, ss: (bb, ss) in infeasible)
            ok = ok and okp
        twice = any(any(q in finp and q != fp for q in fn.walk(fp)[0]) for fp in finp)
        rep.ob('D1', 'K3', fn, 'a successful try_reserve is followed by exactly one try_consume or try_release', ok and not twice,
               'the reserved message of the predecessor is neither consumed nor released (predecessor blocked forever) or both')
    # decrement_counter: the clamped update of my_count and the carried-over part (my_future_decrement) are both computed
    # from the value my_count had when the decrement arrived: no read of my_count may be reachable from a write of it inside
    # the function (a read after `my_count = 0` yields the whole delta as carry-over: the part already applied is applied twice)
    for fn in facts.get(LIM + 'decrement_counter'):
        acc = [x for x in member_accesses(fn, ('my_count',)) if x[2].get('cls', '').endswith('limiter_node')]
        reads = [(pos, node) for pos, sx, node, kind in acc if kind == 'read']
        writes = [(pos, node) for pos, sx, node, kind in acc if kind in ('write', 'rmw')]
        if not reads or not writes:
            raise AnalysisBroken('limiter_node::decrement_counter: my_count reads/writes not found')
        asserts = fn.assertion_nodes()          # debug configurations: __TBB_ASSERT(my_count <= my_threshold) after the update
        reads = [(pos, node) for pos, sx, node, kind in acc if kind == 'read' and sx not in asserts]
        bad = [(w, r) for w, wn in writes for r, rn in reads if w != r and fn.can_reach(w, r)]
        rep.ob('D1', 'K4', fn, 'decrement_counter computes the new count and the carried-over decrement from the old count only', not bad,
               'my_count is read after it was overwritten in the same call: the carried-over decrement no longer excludes the part '
               'that was applied to my_count, later puts are admitted beyond the threshold')
    # Whenever my_count can go DOWN (a decrement, or the carried-over decrement applied after a successful put) a slot may
    # have become free for a predecessor that was rejected meanwhile and now waits to be pulled: every path from such a write to
    # the function exit re-evaluates the admission condition (check_conditions(), directly or through forward_task()).
    # forward_task()'s success path does; its sibling in try_put_task_impl must too.
    nd_ = 0
    for fn in facts.find(r'^tbb::detail::d2::limiter_node::'):
        if fn.kind in ('ctor', 'dtor') or fn.p.endswith('reset_node'):
            continue
        downs = []
        for pos, sx, nd2 in fn.stmt_elems(('binop',)):
            if nd2['op'] not in ('=', '-='):
                continue
            ln_ = fn.n(fn.strip(nd2['l']))
            if ln_.get('k') == 'member' and ln_.get('n') == 'my_count' and (nd2['op'] == '-=' or fn.cv(nd2['r']) == 0):
                downs.append((pos, nd2.get('ln')))
        for pos, ln_ in downs:
            nd_ += 1
            ok, wit = every_path_passes(fn, pos, lambda p_, e_: is_call_to(fn, e_, shortnames=('check_conditions', 'forward_task')))
            rep.ob('D1', 'K7', fn, 'after my_count went down (line %s) the admission condition is evaluated again' % ln_, ok,
                   'a predecessor that was rejected while this put was in flight is never pulled although the limiter has room again: its '
                   'message stays in the predecessor forever (the sibling success path of forward_task() re-checks): ' + wit,
                   ln=ln_, key_extra='down%s' % ln_)
    if nd_ < 3:
        raise AnalysisBroken('limiter_node: only %d writes that lower my_count found' % nd_)
    rep.floor('D1', 24, 'limiter')


def d2_join(facts, rep):
    n = 0
    for fn in facts.get(D2 + 'join_helper::reserve'):
        rv = calls_named(fn, ('reserve',))
        deeper = [c for c in rv if 'join_helper' in (c[3].get('cls') or '')]
        rel = calls_named(fn, ('release_my_reservation',))
        if not deeper:
            continue            # join_helper<1>
        n += 1
        dn = set(c[1] for c in deeper)
        failed = edges_where(fn, lambda a, truth: (not truth) and fn.strip(a) in dn)
        ok = bool(rel) and bool(failed) and all(dominated_by_edges(fn, c[0], failed)[0] for c in rel)
        for (b, si) in failed:
            ok = ok and every_path_passes(fn, (fn.blocks[b]['succ'][si], -1), lambda p, e: p in set(c[0] for c in rel))[0]
            reached, ex, par = fn.walk((fn.blocks[b]['succ'][si], -1))
            rets = [fn.elems(q[0])[q[1]] for q in reached if isinstance(fn.elems(q[0])[q[1]], int) and fn.nodes[fn.elems(q[0])[q[1]]].get('k') == 'return']
            ok = ok and all(fn.cv(fn.nodes[r].get('sub', -1)) == 0 for r in rets)
        rep.ob('D2', 'K3', fn, 'a port reservation is released exactly when a deeper port could not be reserved', ok,
               'a partially reserved tuple keeps one predecessor reserved forever, or releases a reservation of a complete tuple')
    if n == 0:
        raise AnalysisBroken('join_helper<N>::reserve (N > 1) not instantiated')
    join_forwarding(facts, rep, 'D2')
    rep.floor('D2', 2, 'join')


def join_forwarding(facts, rep, clause):
    """join_node_base forwards a complete tuple to its successors: the inputs are consumed (tuple_accepted) only on the edge where
    THIS put's result is non-null, and given back (tuple_rejected) on the other edge.  Shared with C14 (a rejected message is
    kept and offered again)."""
    for fn in facts.get(D2 + 'join_node_base::handle_operations'):
        defs = Defs(fn)
        tp = set(c[1] for c in calls_named(fn, ('try_put_task',)))
        acc = calls_named(fn, ('tuple_accepted',))
        rej = calls_named(fn, ('tuple_rejected',))
        ae = edges_where(fn, lambda a, truth: truth and fn.strip(resolve_cond_source(fn, defs, a)) in tp)
        re_ = edges_where(fn, lambda a, truth: (not truth) and fn.strip(resolve_cond_source(fn, defs, a)) in tp)
        tpp = set(fn.pos_of(t) for t in tp)
        fwd_acc = [c for c in acc if every_path_passes(fn, 'entry', lambda p, e: p in tpp, end=c[0])[0]]
        ok = bool(fwd_acc) and bool(rej) and all(dominated_by_edges(fn, c[0], ae)[0] for c in fwd_acc) and all(dominated_by_edges(fn, c[0], re_)[0] for c in rej)
        for (b, si) in re_:
            ok = ok and every_path_passes(fn, (fn.blocks[b]['succ'][si], -1), lambda p, e: p in set(c[0] for c in rej))[0]
        rep.ob(clause, 'K4', fn, 'the join consumes its inputs only when the successor accepted the tuple, and releases them otherwise', ok,
               'tuple_accepted/tuple_rejected not tied to the result of try_put_task: a tuple that every successor rejected is consumed '
               '(its messages are lost) or an accepted one is kept (delivered twice)')


def d2_rejection_is_clean(facts, rep):
    """A key-matching port reports a duplicate key on the port as a rejected put (try_put returns false; the sender keeps the
    message and offers it again).  A rejected put must leave the port's buffer as it was: in hash_buffer::insert_with_key no
    path that returns false has destroyed, re-created or inserted an element.  Otherwise the message that was accepted
    earlier is lost and the rejected one is used (and later delivered again by its sender)."""
    MUT = ('destroy_element', 'create_element', 'internal_insert_with_key', 'grow_array')
    n = 0
    seen = set()
    for fn in facts.fns.values():
        if not fn.p.endswith('hash_buffer_impl::insert_with_key'):
            continue
        muts = [c[0] for c in calls_named(fn, MUT)]
        muts += [pos for pos, sx, node, kind in member_accesses(fn, ('nelements',)) if kind in ('write', 'rmw')]
        frets = [(pos, node) for pos, sx, node in fn.stmt_elems(('return',)) if 'sub' in node and fn.cv(node['sub']) == 0]
        if not frets:
            raise AnalysisBroken('hash_buffer_impl::insert_with_key has no `return false`')
        bad = [(m, r) for m in muts for r, _ in frets if fn.can_reach(m, r)]
        n += 1
        rep.ob('D2', 'K3', fn, 'a duplicate key is rejected without touching the element that is already stored', not bad,
               'on a path that returns false the stored element was destroyed / re-created: the accepted message with this key is '
               'replaced by the rejected one (accepted message lost, rejected message used and offered again by its sender)')
    if n == 0:
        raise AnalysisBroken('hash_buffer_impl::insert_with_key not instantiated')
    # the port reports exactly what the buffer did: the status published for a put is computed from insert_with_key's result
    from engine.rules import vars_initialised_from
    m = 0
    for fn in facts.fns.values():
        if not fn.p.endswith('key_matching_port::handle_operations'):
            continue
        ins = calls_named(fn, ('insert_with_key',))
        if not ins:
            continue
        res_vars = vars_initialised_from(fn, [c[1] for c in ins])
        ins_nodes = set(c[1] for c in ins)
        for pos, sx, node, d in ins:
            # the first status store after the insertion
            sts = [(p2, o) for p2, o in atomic_ops(fn) if o['kind'] == 'store' and last_member(fn, o['obj']) == 'status' and fn.can_reach(pos, p2)]
            reached, ex, par = fn.walk(pos, stop_elem=lambda p2, e: p2 in set(x[0] for x in sts))
            first = [x for x in sts if x[0] in reached]
            ok = bool(first)
            for p2, o in first:
                sub = fn.subtree(o.get('val', -1))
                ok = ok and (bool(sub & ins_nodes) or any(fn.nodes[x].get('k') == 'var' and fn.nodes[x].get('v') in res_vars for x in sub))
            m += 1
            rep.ob('D2', 'K10', fn, 'the status of a put into a key-matching port is derived from the result of the insertion', ok,
                   'the put is reported as accepted whatever insert_with_key returned: a duplicate key is counted twice, the join emits a '
                   'tuple although another port has no message with that key', ln=node['ln'], key_extra='st%s' % node['ln'])
    if m == 0:
        raise AnalysisBroken('key_matching_port::handle_operations: no insert_with_key call found')


def d3_buffers(facts, rep):
    Q = D2 + 'queue_node::'
    for name, act in (('internal_pop', 'pop_front'), ('internal_reserve', 'reserve_front')):
        for fn in facts.get(Q + name):
            cs = calls_named(fn, (act,))
            if not cs:
                raise AnalysisBroken('queue_node::%s: %s not found' % (name, act))

            def free_edge(a, truth):
                n = fn.n(fn.strip(a))
                return (not truth) and n.get('k') == 'member' and n['n'] == 'my_reserved'

            def valid_edge(a, truth):
                n = fn.n(fn.strip(a))
                if n.get('k') == 'call' and (fn.callee(n['s']) or {}).get('n') == 'my_item_valid':
                    return truth and n.get('a') and last_member(fn, n['a'][0]) == 'my_head'
                return False
            fe, ve = edges_where(fn, free_edge), edges_where(fn, valid_edge)
            ok = all(dominated_by_edges(fn, c[0], fe)[0] and dominated_by_edges(fn, c[0], ve)[0] for c in cs)
            rep.ob('D3', 'K4', fn, 'queue_node %s only the valid head item, and only when nothing is reserved' % ('pops' if 'pop' in name else 'reserves'), ok,
                   'an item other than the oldest one, or a reserved one, can be handed out')
    for fn in facts.get(D2 + 'sequencer_node::internal_push'):
        pl = calls_named(fn, ('place_item',))
        gr = calls_named(fn, ('grow_my_array',))

        def stale(a, truth):
            n = fn.n(fn.strip(a))
            return (not truth) and n.get('k') == 'binop' and n['op'] == '<' and last_member(fn, n['r']) == 'my_head'
        se = edges_where(fn, stale)
        ok = bool(pl) and bool(se) and all(dominated_by_edges(fn, c[0], se)[0] for c in pl)
        rep.ob('D3', 'K4', fn, 'sequencer_node places an item only if its sequence number was not emitted yet (tag >= my_head)', ok,
               'a duplicate of an already forwarded sequence number overwrites a live slot / is forwarded again')

        def too_small(a, truth):
            n = fn.n(fn.strip(a))
            return truth and n.get('k') == 'binop' and n['op'] == '>' and any((fn.callee(x) or {}).get('n') == 'capacity' for x in fn.subtree(n['s']) if fn.nodes[x].get('k') == 'call')
        te = edges_where(fn, too_small)
        ok2 = bool(gr) and bool(te) and all(every_path_passes(fn, (fn.blocks[b]['succ'][si], -1), lambda p, e: p in set(c[0] for c in gr))[0] for b, si in te) and \
            all(not fn.can_reach(p[0], g[0]) for p in pl for g in gr)
        rep.ob('D3', 'K4', fn, 'the buffer is grown before an out-of-range item is placed', ok2, 'place_item beyond the capacity')
        # the successor of the user's sequence number: tag + 1 wraps for the largest value, the tail then does not cover the item
        # and place_item writes it over a buffered one ("exactly the items numbered 0,1,2,... with no gap")
        tagvars = set()
        for pos, s_, nd in fn.stmt_elems(('decl',)):
            for v in nd.get('vars', []):
                if v.get('init', -1) >= 0 and any(fn.nodes[x].get('k') == 'member' and fn.nodes[x].get('n') == 'my_sequencer' for x in fn.subtree(v['init'])):
                    tagvars.add(v['v'])
        if not tagvars:
            raise AnalysisBroken('sequencer_node::internal_push: the variable holding the sequence number was not found')

        def is_tag(x):
            nd = fn.n(fn.strip(x))
            return nd.get('k') == 'var' and nd.get('v') in tagvars

        def is_succ(x):
            nd = fn.n(fn.strip(x))
            return nd.get('k') == 'binop' and nd['op'] == '+' and ((is_tag(nd['l']) and fn.cv(nd['r']) == 1) or (is_tag(nd['r']) and fn.cv(nd['l']) == 1))

        def no_wrap(a, truth):
            nd = fn.n(fn.strip(a))
            if nd.get('k') != 'binop' or nd['op'] not in ('==', '!='):
                return False
            for x, y in ((nd['l'], nd['r']), (nd['r'], nd['l'])):
                cy = fn.cv(y)
                if (is_succ(x) and cy == 0) or (is_tag(x) and cy is not None and (cy == -1 or cy == (1 << 64) - 1 or cy == (1 << 32) - 1)):
                    return (nd['op'] == '!=') == truth
            return False
        we = edges_where(fn, no_wrap)
        pm = fn.parent_map()
        sums = []
        for pos, s_, nd in fn.stmt_elems(('binop',)):
            if is_succ(s_):
                par = pm.get(s_)
                for _ in range(4):
                    if par is not None and fn.nodes[par].get('k') in ('rd', 'cast', 'paren'):
                        par = pm.get(par)
                pn = fn.nodes[par] if par is not None else {}
                if pn.get('k') == 'binop' and pn['op'] in ('==', '!=') and (fn.cv(pn['l']) == 0 or fn.cv(pn['r']) == 0):
                    continue          # the wrap test itself
                sums.append((pos, nd))
        if not sums:
            raise AnalysisBroken('sequencer_node::internal_push: no use of tag + 1 found')
        ok3 = bool(we) and all(dominated_by_edges(fn, p, we)[0] for p, _ in sums)
        rep.ob('D3', 'K14', fn, 'the successor of the sequence number is computed only for numbers that have one (tag + 1 does not wrap)', ok3,
               'tag + 1 at line(s) %s is computed for any value the user functor returns: for size_t(-1) it wraps to 0, the tail is not moved, and '
               'place_item writes the message over a buffered one - a numbered item is lost and a foreign one is forwarded in its place'
               % sorted(set(nd.get('ln') for _, nd in sums)), key_extra='seq-wrap')
    P = D2 + 'priority_queue_node::'
    for fn in facts.get(P + 'internal_reserve'):
        st = [(p, s) for p, s, l, r in assignments(fn) if last_member(fn, l) == 'my_reserved' and fn.cv(r) == 1]
        pp = calls_named(fn, ('prio_pop',))
        sv = [(p, s) for p, s, l, r in assignments(fn) if last_member(fn, l) == 'reserved_item']

        def free_edge(a, truth):
            n = fn.n(fn.strip(a))
            if n.get('k') == 'binop' and n['op'] == '==' and last_member(fn, n['l']) == 'my_reserved':
                return (not truth) and fn.cv(n['r']) == 1
            return (not truth) and n.get('k') == 'member' and n['n'] == 'my_reserved'
        fe = edges_where(fn, free_edge)
        ok = bool(st) and bool(pp) and bool(sv) and all(dominated_by_edges(fn, p, fe)[0] for p, _ in st)
        rep.ob('D3', 'K4', fn, 'priority_queue_node reserves only when nothing is reserved, remembers the item and marks the reservation', ok,
               'double reservation or lost reserved item')
    for fn in facts.get(P + 'internal_release'):
        pu = calls_named(fn, ('prio_push',))
        cl = [(p, s) for p, s, l, r in assignments(fn) if last_member(fn, l) == 'my_reserved' and fn.cv(r) == 0]
        ok = bool(pu) and bool(cl) and any(last_member(fn, c[2]['a'][0]) == 'reserved_item' for c in pu if c[2].get('a')) and \
            every_path_passes(fn, 'entry', lambda p, e: p in set(c[0] for c in pu))[0]
        rep.ob('D3', 'K3', fn, 'releasing a reservation re-inserts the reserved item and clears the reservation', ok, 'a released item is lost')
    for fn in facts.get(P + 'internal_consume'):
        cl = [(p, s) for p, s, l, r in assignments(fn) if last_member(fn, l) == 'my_reserved' and fn.cv(r) == 0]
        pu = calls_named(fn, ('prio_push',))
        rep.ob('D3', 'K3', fn, 'consuming a reservation clears it without re-inserting the item', bool(cl) and not pu, 'consumed item re-inserted / reservation not cleared')
    for fn in facts.get(P + 'internal_pop'):
        pp = calls_named(fn, ('prio_pop',))

        def free_edge(a, truth):
            n = fn.n(fn.strip(a))
            if n.get('k') == 'binop' and n['op'] == '==' and last_member(fn, n['l']) == 'my_reserved':
                return (not truth) and fn.cv(n['r']) == 1
            return False
        fe = edges_where(fn, free_edge)
        ok = bool(pp) and all(dominated_by_edges(fn, c[0], fe)[0] for c in pp)
        rep.ob('D3', 'K4', fn, 'priority_queue_node pops only when nothing is reserved', ok, 'pop while an item is reserved')
    for fn in facts.get(D2 + 'buffer_node::handle_operations_impl'):
        od = calls_named(fn, ('order',))
        ok = bool(od) and every_path_passes(fn, 'entry', lambda p, e: p in set(c[0] for c in od))[0]
        rep.ob('D3', 'K4', fn, 'order() (heapify for priority queues) runs after every batch of operations', ok, 'batch finished without restoring the heap')
    for fn in facts.get(P + 'order'):
        hp = calls_named(fn, ('heapify',))
        rep.ob('D3', 'K4', fn, 'priority_queue_node::order heapifies leftover items', bool(hp), 'no heapify')
    # the same heap discipline as concurrent_priority_queue (C13-D4): items [0, mark) are a heap, [mark, my_tail) were pushed in
    # this batch and are not merged yet; the sift-down of reheap() may look at children below mark only
    from rules.C13 import sift_bound
    sift_bound(facts, rep, facts.get(D2 + 'priority_queue_node::reheap'), 'D3',
               lambda fn, node: (fn.callee(node['s']) or {}).get('n') in ('get_my_item', 'item') and bool(node.get('a')),
               'the item at index ...')
    d3_copy_keeps_user_state(facts, rep)
    rep.floor('D3', 13, 'buffers')


def d4_overwrite(facts, rep):
    O = D2 + 'overwrite_node::'
    n = 0
    for fn in facts.find(r'^tbb::detail::d2::(overwrite_node|write_once_node)::'):
        if fn.kind in ('ctor', 'dtor') or fn.p.endswith('reset_node'):
            continue
        acc = [x for x in member_accesses(fn, ('my_buffer', 'my_buffer_is_valid')) if 'overwrite_node' in x[2].get('cls', '')]
        if not acc:
            continue
        if fn.p == O + 'try_put_task_impl':
            # requires the lock at its call sites
            for g, gpos, gs in facts.callers(fn.u):
                before, info = lockset(g, LOCKCLS)
                locks = set(v for v, i in info.items() if i['mutex'] == 'my_mutex')
                rep.ob('D4', 'K5', g, 'try_put_task_impl is called with my_mutex held', bool(before.get(gpos, frozenset()) & locks),
                       'buffer written without my_mutex', key_extra=g.p)
            continue
        before, info = lockset(fn, LOCKCLS)
        locks = set(v for v, i in info.items() if i['mutex'] == 'my_mutex')
        for pos, s, node, kind in acc:
            n += 1
            rep.ob('D4', 'K5', fn, '%s is accessed under my_mutex (line %s)' % (node['n'], node['ln']), bool(before.get(pos, frozenset()) & locks),
                   '%s %s without my_mutex' % (node['n'], kind), ln=node['ln'], key_extra='%s.%s' % (node['ln'], node['n']))
    for fn in facts.get(D2 + 'write_once_node::try_put_task'):
        tp = calls_named(fn, ('try_put_task_impl',))

        def unset(a, truth):
            n = fn.n(fn.strip(a))
            return (not truth) and n.get('k') == 'member' and n['n'] == 'my_buffer_is_valid'
        ue = edges_where(fn, unset)
        ok = bool(tp) and all(dominated_by_edges(fn, c[0], ue)[0] for c in tp)
        rep.ob('D4', 'K4', fn, 'write_once_node stores a value only while it has none', ok, 'a second put overwrites the value', key_extra=str(fn.l0))
    for fn in facts.get(O + 'register_successor'):
        tpv = [c for c in calls_named(fn, ('try_put',))]

        def valid(a, truth):
            n = fn.n(fn.strip(a))
            return truth and n.get('k') == 'member' and n['n'] == 'my_buffer_is_valid'
        ve = edges_where(fn, valid)
        ok = bool(tpv) and bool(ve) and all(dominated_by_edges(fn, c[0], ve)[0] for c in tpv) and \
            all(any(last_member(fn, a) == 'my_buffer' for a in c[2].get('a', [])) for c in tpv)
        rep.ob('D4', 'K4', fn, 'a successor registered after the value arrived is given the current value', ok, 'late successors never see the value')
    rep.floor('D4', 8, 'overwrite / write_once')


def d5_routing(facts, rep):
    import re
    n = 0
    # split_node: emit_element<N>::emit_this puts std::get<N-1>(t) to std::get<N-1>(ports)
    for fn in facts.find(r'^tbb::detail::d2::emit_element::emit_this$'):
        gets = [c for c in calls(fn) if c[3]['p'] == 'std::get']
        tp = calls_named(fn, ('try_put_task', 'try_put'))
        idx = [int(m.group(1)) for m in (re.search(r'get<(\d+)', c[3]['q']) for c in gets) if m]
        ok = bool(tp) and len(set(idx)) == 1 and len(idx) >= 2
        n += 1
        rep.ob('D5', 'K10', fn, 'split_node: element i of the tuple goes to output port i', ok,
               'tuple element and output port indices differ: %s' % idx)
    # indexer_node: input port i is wired to the forwarding function instantiated with tag i, which builds tagged_msg(i, value)
    for fn in facts.find(r'^tbb::detail::d2::indexer_helper::set_indexer_node_pointer$'):
        gets = [c for c in calls(fn) if c[3]['p'] == 'std::get']
        idx = [int(m.group(1)) for m in (re.search(r'get<(\d+)', c[3]['q']) for c in gets) if m]
        tags = []
        for i, nd in enumerate(fn.nodes):
            if nd and nd.get('k') == 'fnref':
                d = fn.callee(i)
                if d and d['n'] == 'do_try_put':
                    m = re.search(r',\s*(\d+)[UL]*>\s*$', d['q'])
                    if m:
                        tags.append(int(m.group(1)))
        ok = len(idx) >= 1 and len(tags) >= 1 and set(idx) == set(tags) and len(set(idx)) == 1
        n += 1
        rep.ob('D5', 'K10', fn, 'indexer_node: input port i is wired to the forwarder for tag i', ok, 'port index %s, forwarder tag %s' % (idx, tags))
    for fn in facts.find(r'^tbb::detail::d2::do_try_put$'):
        m = re.search(r',\s*(\d+)[UL]*>\s*$', fn.q)
        k = int(m.group(1)) if m else None
        ctors = [nd for p, s, nd in fn.stmt_elems(('ctor',)) if 'tagged_msg' in (nd.get('cls') or '')]
        ok = k is not None and bool(ctors) and all(nd.get('a') and fn.cv(nd['a'][0]) == k for nd in ctors)
        n += 1
        rep.ob('D5', 'K10', fn, 'indexer_node: the forwarder for tag i builds tagged_msg(i, value)', ok, 'tag constant differs from the port index')
    if n < 2:
        raise AnalysisBroken('split_node / indexer_node helpers not instantiated')
    rep.floor('D5', 3, 'routing')


def d3_copy_keeps_user_state(facts, rep):
    """A copy of a node is documented to behave like the original with empty buffers: it keeps the user's functors and
    parameters (body, sequencer, key functions, comparator, threshold).  Sibling agreement between the constructors of one
    class: a member that an ordinary constructor initialises from a constructor argument is user-supplied state; the copy
    constructor must initialise it from its source object.  A default-initialised comparator in a copied priority_queue_node
    orders the copy differently from the original (or, for a function pointer, not at all)."""
    n = 0
    for p, fns in sorted(facts.by_p.items()):
        if not p.startswith(D2) or not p.endswith('::(ctor)'):
            continue
        cls = p[:-len('::(ctor)')]
        short = cls.split('::')[-1]

        def inits(fn):
            out = {}
            for b, i, e in fn.iter_elems():
                if isinstance(e, dict) and 'i' in e and not e['i'].startswith('(base)') and e.get('s', -1) >= 0:
                    out[e['i']] = (any(fn.nodes[x].get('k') == 'var' and 'param' in fn.nodes[x] for x in fn.subtree(e['s'])), e.get('ln'))
            return out
        copy = [f for f in fns if len(f.d.get('params', [])) == 1 and short in (f.d['params'][0].get('ty') or '') and
                'const' in f.d['params'][0]['ty'] and '&' in f.d['params'][0]['ty']]
        other = [f for f in fns if f not in copy]
        if not copy or not other:
            continue
        user = set()
        for f in other:
            for k, (from_param, ln) in inits(f).items():
                if from_param:
                    user.add(k)
        for f in copy:
            ci = inits(f)
            for k in sorted(user):
                if k not in ci:
                    continue
                n += 1
                rep.ob('D3', 'K7', f, 'the copy constructor of %s takes `%s` (user-supplied state) from its source' % (short, k), ci[k][0],
                       '`%s` is initialised from a constructor argument by the ordinary constructor but default-initialised in the copy: the '
                       'copy does not keep the user\'s functor / parameter' % k, ln=ci[k][1], key_extra='copy|%s|%s' % (cls, k))
    if n < 5:
        raise AnalysisBroken('copy constructors with user-supplied members: fewer than confirmed by reading (%d)' % n)


def d1_future_decrement_is_bounded_by_the_puts_in_flight(facts, rep):
    """"limiter_node never has more than its threshold of un-decremented forwarded messages": a decrement larger than the current
    count is partly kept in my_future_decrement, to cancel the count increment of the puts that are still in flight (my_tries).
    Each of them adds at most one, so the kept excess is meaningful only up to my_tries; what exceeds it must be dropped (the
    count is truncated at 0 anyway).  A surplus that outlives the in-flight puts silently swallows the increment of a later,
    unrelated put - the limiter then admits threshold+1 messages without any decrement.  Rule: the invariant
    my_future_decrement <= my_tries is re-established before the lock is released after every operation that can break it (an
    increase of my_future_decrement, a decrease of my_tries): every path from such an operation to the end of the function passes
    a clamp - `if (my_future_decrement > my_tries) my_future_decrement = my_tries` inline, or a helper that does exactly that."""
    def clamp_positions(fn):
        """positions of an assignment my_future_decrement = <expression reading my_tries> (the clamp itself)"""
        out = set()
        for pos, s, l, r in assignments(fn):
            if last_member(fn, l) == 'my_future_decrement' and any(fn.nodes[x].get('k') == 'member' and fn.nodes[x].get('n') == 'my_tries' for x in fn.subtree(fn.strip(r))):
                out.add(pos)
        return out
    clampers = set(f.u for f in facts.find(r'^tbb::detail::d2::limiter_node::') if clamp_positions(f) and
                   every_path_passes(f, 'entry', lambda p, e: False)[0] is False and
                   all(dominated_by_edges(f, p, edges_where(f, lambda a, truth, f=f: truth and f.n(f.strip(a)).get('k') == 'binop' and f.n(f.strip(a))['op'] in ('>', '>=') and
                                                            last_member(f, f.n(f.strip(a))['l']) == 'my_future_decrement' and last_member(f, f.n(f.strip(a))['r']) == 'my_tries'))[0]
                       for p in clamp_positions(f)))
    n = 0
    for fn in sorted(facts.find(r'^tbb::detail::d2::limiter_node::'), key=lambda f: f.q):
        if fn.kind in ('ctor', 'dtor') or fn.u in clampers:
            continue
        breakers = [(pos, 'my_tries decreased', nd.get('ln')) for pos, s, nd in incdec(fn, 'my_tries', '--')]
        for pos, s, nd in fn.stmt_elems(('binop',)):
            if nd['op'] in ('+=',) and last_member(fn, nd['l']) == 'my_future_decrement':
                breakers.append((pos, 'my_future_decrement increased', nd.get('ln')))
        if not breakers:
            continue
        good = set(clamp_positions(fn)) | set(pos for pos, s, node, d in calls(fn) if node.get('fn') in clampers)
        for pos, what, ln in breakers:
            n += 1
            ok = every_path_passes(fn, pos, lambda p, e: p in good)[0]
            rep.ob('D1', 'K3', fn, 'my_future_decrement <= my_tries is re-established after %s (line %s)' % (what, ln), ok,
                   'the excess of a large decrement can outlive the puts in flight: it later swallows the count increment of an unrelated put and '
                   'the limiter admits more than `threshold` messages without a decrement', ln=ln, key_extra='future<=tries|%s|%s' % (fn.p.split('::')[-1], what))
    if n < 4:
        raise AnalysisBroken('limiter_node: operations that can break my_future_decrement <= my_tries: %d found (expected >= 4)' % n)
