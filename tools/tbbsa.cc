// tbbsa — fact extractor for the oneTBB static verification framework.
//
// A libTooling tool (clang 14).  For every function definition located under the
// repository roots given with --root (template instantiations included, dependent
// contexts skipped) it emits one JSON line describing
//   * the function (mangled uid, qualified name, primary name without template
//     arguments, class, bases, overridden methods, noexcept, parameters),
//   * a flat table of expression/statement nodes (resolved callees, member accesses,
//     constant-folded integer values, casts with widths, lambdas -> closure uid),
//   * the clang::CFG (all sub-expressions as elements, implicit/temporary destructors,
//     no EH edges): blocks, ordered elements, terminator condition, successor edges,
//     case/catch labels.
// Plus one line per referenced callee declaration and per class definition.
// Nothing here decides a property: the Python rule engine does.
//
// Build: see /verif/setup.sh

#include "clang/AST/ASTConsumer.h"
#include "clang/AST/ASTContext.h"
#include "clang/AST/Mangle.h"
#include "clang/AST/RecursiveASTVisitor.h"
#include "clang/AST/ParentMapContext.h"
#include "clang/Analysis/CFG.h"
#include "clang/Frontend/CompilerInstance.h"
#include "clang/Frontend/FrontendAction.h"
#include "clang/Tooling/CommonOptionsParser.h"
#include "clang/Tooling/Tooling.h"
#include "llvm/Support/CommandLine.h"
#include "llvm/Support/raw_ostream.h"
#include <map>
#include <set>
#include <string>
#include <unordered_map>
#include <vector>

using namespace clang;
using namespace clang::tooling;

static llvm::cl::OptionCategory Cat("tbbsa options");
static llvm::cl::list<std::string> Roots("root", llvm::cl::desc("source root prefix to analyse (repeatable)"),
                                         llvm::cl::cat(Cat));
static llvm::cl::opt<std::string> OutFile("o", llvm::cl::desc("output file"), llvm::cl::init("-"),
                                          llvm::cl::cat(Cat));

namespace {

std::string jesc(llvm::StringRef s) {
    std::string o;
    o.reserve(s.size() + 2);
    for (unsigned char c : s) {
        switch (c) {
        case '"': o += "\\\""; break;
        case '\\': o += "\\\\"; break;
        case '\n': o += "\\n"; break;
        case '\t': o += "\\t"; break;
        case '\r': o += "\\r"; break;
        default:
            if (c < 0x20) { char b[8]; snprintf(b, sizeof b, "\\u%04x", c); o += b; }
            else o += (char)c;
        }
    }
    return o;
}
std::string jstr(llvm::StringRef s) { return "\"" + jesc(s) + "\""; }

struct Ctx {
    ASTContext *AC = nullptr;
    SourceManager *SM = nullptr;
    std::unique_ptr<MangleContext> MC;
    llvm::raw_ostream *OS = nullptr;
    std::set<const Decl *> doneFns;
    std::set<const Decl *> doneDecls;
    std::set<const Decl *> doneTmpl;
    std::set<const Decl *> donePat;
    std::set<const Decl *> doneClasses;
    PrintingPolicy PP{LangOptions()};

    bool inRoots(SourceLocation L) {
        if (L.isInvalid()) return false;
        L = SM->getExpansionLoc(L);
        PresumedLoc P = SM->getPresumedLoc(L);
        if (P.isInvalid()) return false;
        llvm::StringRef F(P.getFilename());
        for (auto &R : Roots)
            if (F.startswith(R)) return true;
        return false;
    }
    std::string fileOf(SourceLocation L) {
        L = SM->getExpansionLoc(L);
        PresumedLoc P = SM->getPresumedLoc(L);
        return P.isInvalid() ? std::string("?") : std::string(P.getFilename());
    }
    unsigned lineOf(SourceLocation L) {
        if (L.isInvalid()) return 0;
        L = SM->getExpansionLoc(L);
        PresumedLoc P = SM->getPresumedLoc(L);
        return P.isInvalid() ? 0 : P.getLine();
    }
    unsigned colOf(SourceLocation L) {
        if (L.isInvalid()) return 0;
        L = SM->getExpansionLoc(L);
        PresumedLoc P = SM->getPresumedLoc(L);
        return P.isInvalid() ? 0 : P.getColumn();
    }

    // primary name: qualified name without any template arguments
    std::string pname(const NamedDecl *D) {
        std::vector<std::string> parts;
        std::string self;
        if (auto *FD = dyn_cast<FunctionDecl>(D)) {
            if (auto *MD = dyn_cast<CXXMethodDecl>(FD)) {
                if (MD->getParent()->isLambda()) self = "operator()";
            }
            if (self.empty()) {
                if (isa<CXXConstructorDecl>(FD)) self = "(ctor)";
                else if (isa<CXXDestructorDecl>(FD)) self = "(dtor)";
                else if (isa<CXXConversionDecl>(FD)) self = "(conv)";
                else self = FD->getDeclName().getAsString();
            }
        } else if (auto *RD = dyn_cast<CXXRecordDecl>(D)) {
            if (RD->isLambda()) self = "(lambda@" + std::to_string(lineOf(RD->getLocation())) + ")";
            else self = RD->getNameAsString();
            if (self.empty()) self = "(anon)";
        } else {
            self = D->getNameAsString();
        }
        const DeclContext *DC = D->getDeclContext();
        while (DC && !DC->isTranslationUnit()) {
            if (auto *NS = dyn_cast<NamespaceDecl>(DC)) {
                if (!NS->isInline() || true) {
                    if (NS->isAnonymousNamespace()) parts.push_back("(anon)");
                    else if (!NS->isInline()) parts.push_back(NS->getNameAsString());
                }
            } else if (auto *RD = dyn_cast<CXXRecordDecl>(DC)) {
                if (RD->isLambda()) parts.push_back("(lambda@" + std::to_string(lineOf(RD->getLocation())) + ")");
                else {
                    std::string n = RD->getNameAsString();
                    parts.push_back(n.empty() ? "(anon)" : n);
                }
            } else if (auto *FD = dyn_cast<FunctionDecl>(DC)) {
                parts.push_back(FD->getDeclName().getAsString());
            } else if (auto *RD2 = dyn_cast<RecordDecl>(DC)) {
                std::string n = RD2->getNameAsString();
                parts.push_back(n.empty() ? "(anon)" : n);
            }
            DC = DC->getParent();
        }
        std::string o;
        for (auto it = parts.rbegin(); it != parts.rend(); ++it) { o += *it; o += "::"; }
        return o + self;
    }
    std::string qname(const NamedDecl *D) {
        std::string s;
        llvm::raw_string_ostream os(s);
        if (isa<ClassTemplateSpecializationDecl>(D)) D->getNameForDiagnostic(os, PP, true);
        else D->printQualifiedName(os, PP);
        os.flush();
        if (auto *FD = dyn_cast<FunctionDecl>(D)) {
            if (auto *TA = FD->getTemplateSpecializationArgs()) {
                s += "<";
                bool first = true;
                for (auto &A : TA->asArray()) {
                    if (!first) s += ", ";
                    first = false;
                    std::string a;
                    llvm::raw_string_ostream aos(a);
                    A.print(PP, aos, true);
                    aos.flush();
                    s += a;
                }
                s += ">";
            }
        }
        return s;
    }
    std::string uid(const FunctionDecl *FD) {
        FD = FD->getCanonicalDecl();
        std::string s;
        llvm::raw_string_ostream os(s);
        bool ok = false;
        if (!FD->isDependentContext() && !FD->getType()->isDependentType()) {
            if (auto *CD = dyn_cast<CXXConstructorDecl>(FD)) { MC->mangleName(GlobalDecl(CD, Ctor_Complete), os); ok = true; }
            else if (auto *DD = dyn_cast<CXXDestructorDecl>(FD)) { MC->mangleName(GlobalDecl(DD, Dtor_Complete), os); ok = true; }
            else if (MC->shouldMangleDeclName(FD)) { MC->mangleName(GlobalDecl(FD), os); ok = true; }
        }
        os.flush();
        if (!ok || s.empty()) {
            s = "?" + qname(FD) + "@" + fileOf(FD->getLocation()) + ":" + std::to_string(lineOf(FD->getLocation()));
        }
        return s;
    }
    std::string tyStr(QualType T) {
        if (T.isNull()) return "?";
        return T.getCanonicalType().getAsString(PP);
    }

    void allBases(const CXXRecordDecl *RD, std::vector<std::string> &out, std::set<const CXXRecordDecl *> &seen) {
        if (!RD || !RD->hasDefinition()) return;
        for (auto &B : RD->bases()) {
            auto *BD = B.getType()->getAsCXXRecordDecl();
            if (!BD) continue;
            if (!seen.insert(BD->getCanonicalDecl()).second) continue;
            out.push_back(pname(BD));
            allBases(BD, out, seen);
        }
    }

    void emitClass(const CXXRecordDecl *RD) {
        if (!RD || !RD->hasDefinition()) return;
        RD = RD->getDefinition();
        if (RD->isDependentContext()) return;
        if (!doneClasses.insert(RD->getCanonicalDecl()).second) return;
        std::string o = "{\"t\":\"class\",\"p\":" + jstr(pname(RD)) + ",\"q\":" + jstr(qname(RD));
        o += ",\"file\":" + jstr(fileOf(RD->getLocation())) + ",\"ln\":" + std::to_string(lineOf(RD->getLocation()));
        o += ",\"bases\":[";
        bool first = true;
        for (auto &B : RD->bases()) {
            auto *BD = B.getType()->getAsCXXRecordDecl();
            if (!BD) continue;
            if (!first) o += ",";
            first = false;
            o += jstr(pname(BD));
        }
        o += "],\"allbases\":[";
        std::vector<std::string> ab;
        std::set<const CXXRecordDecl *> seen;
        allBases(RD, ab, seen);
        first = true;
        for (auto &b : ab) { if (!first) o += ","; first = false; o += jstr(b); }
        o += "],\"fields\":[";
        first = true;
        for (auto *F : RD->fields()) {
            if (!first) o += ",";
            first = false;
            o += "{\"n\":" + jstr(F->getNameAsString()) + ",\"ty\":" + jstr(tyStr(F->getType())) + "}";
        }
        o += "],\"methods\":[";
        first = true;
        for (auto *M : RD->methods()) {
            if (M->isImplicit() && !M->doesThisDeclarationHaveABody()) continue;
            if (!first) o += ",";
            first = false;
            o += "{\"n\":" + jstr(pname(M)) + ",\"u\":" + jstr(uid(M)) + ",\"virt\":" + (M->isVirtual() ? "1" : "0") +
                 ",\"ne\":" + (isNoexcept(M) ? "1" : "0") + ",\"del\":" + (M->isDeleted() ? "1" : "0") + "}";
        }
        o += "]}\n";
        *OS << o;
    }

    bool isNoexcept(const FunctionDecl *FD) {
        auto *FPT = FD->getType()->getAs<FunctionProtoType>();
        if (!FPT) return false;
        if (isUnresolvedExceptionSpec(FPT->getExceptionSpecType())) return false;
        return FPT->isNothrow();
    }

    void emitDecl(const FunctionDecl *FD) {
        const FunctionDecl *C = FD->getCanonicalDecl();
        if (!doneDecls.insert(C).second) return;
        std::string o = "{\"t\":\"decl\",\"u\":" + jstr(uid(FD)) + ",\"q\":" + jstr(qname(FD)) + ",\"p\":" + jstr(pname(FD));
        std::string nm;
        if (isa<CXXConversionDecl>(FD)) nm = "(conv)";
        else if (isa<CXXConstructorDecl>(FD)) nm = "(ctor)";
        else if (isa<CXXDestructorDecl>(FD)) nm = "(dtor)";
        else nm = FD->getDeclName().getAsString();
        o += ",\"n\":" + jstr(nm);
        if (auto *MD = dyn_cast<CXXMethodDecl>(FD)) {
            o += ",\"cls\":" + jstr(pname(MD->getParent()));
            o += ",\"clsq\":" + jstr(qname(MD->getParent()));
            if (MD->isVirtual()) o += ",\"virt\":1";
            if (MD->isStatic()) o += ",\"static\":1";
            if (MD->size_overridden_methods()) {
                o += ",\"ov\":[";
                bool first = true;
                for (auto *OM : MD->overridden_methods()) { if (!first) o += ","; first = false; o += jstr(uid(OM)); }
                o += "]";
            }
        }
        if (FD->isNoReturn()) o += ",\"noret\":1";
        if (isNoexcept(FD)) o += ",\"ne\":1";
        if (FD->isDeleted()) o += ",\"del\":1";
        o += ",\"file\":" + jstr(fileOf(FD->getLocation())) + ",\"ln\":" + std::to_string(lineOf(FD->getLocation()));
        o += ",\"ret\":" + jstr(tyStr(FD->getReturnType()));
        o += ",\"np\":" + std::to_string(FD->getNumParams());
        // which parameters can modify the caller's argument: non-const lvalue references and pointers to non-const
        o += ",\"mut\":[";
        for (unsigned i = 0; i < FD->getNumParams(); ++i) {
            QualType PT = FD->getParamDecl(i)->getType();
            bool mut = false;
            if (PT->isLValueReferenceType()) mut = !PT->getPointeeType().isConstQualified();
            else if (PT->isPointerType()) mut = !PT->getPointeeType().isConstQualified();
            else if (PT->isRValueReferenceType()) mut = true;
            if (i) o += ",";
            o += mut ? "1" : "0";
        }
        o += "]";
        if (auto *MD2 = dyn_cast<CXXMethodDecl>(FD)) if (MD2->isConst()) o += ",\"const\":1";
        o += "}\n";
        *OS << o;
    }
};

// --------------------------------------------------------------------------------------
// Per-function emitter
// --------------------------------------------------------------------------------------
struct FnEmitter {
    Ctx &C;
    const FunctionDecl *FD;
    std::unordered_map<const Stmt *, int> ids;
    std::vector<std::string> nodes; // json text by id
    std::unordered_map<const ValueDecl *, int> varIds;
    std::unordered_map<const Stmt *, int> tryOf, catchOf; // innermost enclosing try body / catch handler
    std::unordered_map<const Stmt *, int> tryOfHandler;   // catch handler -> id of its try statement
    int nextVar = 0;
    std::set<int> emitted;

    FnEmitter(Ctx &c, const FunctionDecl *fd) : C(c), FD(fd) {}

    int varId(const ValueDecl *D) {
        auto it = varIds.find(D);
        if (it != varIds.end()) return it->second;
        int v = nextVar++;
        varIds[D] = v;
        return v;
    }

    const Expr *strip(const Expr *E) {
        // look through syntactic wrappers that carry no semantics for the rules
        while (E) {
            if (auto *P = dyn_cast<ParenExpr>(E)) { E = P->getSubExpr(); continue; }
            if (auto *X = dyn_cast<ExprWithCleanups>(E)) { E = X->getSubExpr(); continue; }
            if (auto *X = dyn_cast<ConstantExpr>(E)) { E = X->getSubExpr(); continue; }
            if (auto *X = dyn_cast<CXXBindTemporaryExpr>(E)) { E = X->getSubExpr(); continue; }
            if (auto *X = dyn_cast<MaterializeTemporaryExpr>(E)) { E = X->getSubExpr(); continue; }
            if (auto *X = dyn_cast<SubstNonTypeTemplateParmExpr>(E)) { E = X->getReplacement(); continue; }
            if (auto *X = dyn_cast<CXXDefaultArgExpr>(E)) { E = X->getExpr(); continue; }
            if (auto *X = dyn_cast<CXXDefaultInitExpr>(E)) { E = X->getExpr(); continue; }
            if (auto *X = dyn_cast<ImplicitCastExpr>(E)) {
                CastKind K = X->getCastKind();
                if (K == CK_LValueToRValue || K == CK_IntegralCast) break;
                E = X->getSubExpr();
                continue;
            }
            if (auto *X = dyn_cast<CXXFunctionalCastExpr>(E)) {
                if (X->getCastKind() == CK_ConstructorConversion || X->getCastKind() == CK_NoOp) { E = X->getSubExpr(); continue; }
                break;
            }
            break;
        }
        return E;
    }

    void scanTry(const Stmt *S, int curTry, int curCatch) {
        if (!S) return;
        if (curTry >= 0) tryOf[S] = curTry;
        if (curCatch >= 0) catchOf[S] = curCatch;
        if (auto *T = dyn_cast<CXXTryStmt>(S)) {
            int tid = id(T);
            scanTry(T->getTryBlock(), tid, curCatch);
            for (unsigned i = 0; i < T->getNumHandlers(); ++i) {
                auto *H = T->getHandler(i);
                int hid = id(H);
                tryOfHandler[H] = tid;
                scanTry(H->getHandlerBlock(), curTry, hid);
            }
            return;
        }
        if (isa<LambdaExpr>(S)) return; // lambda bodies are separate functions
        for (const Stmt *Ch : S->children()) scanTry(Ch, curTry, curCatch);
    }

    // does the (sugared) type come from a template type parameter, i.e. is it a type the library's user supplies?
    // (in an instantiation such types are SubstTemplateTypeParmType sugar; pointers/references to them count as well)
    // 0: no; 1: yes, replaced by a type the user could supply (builtin, std, the drivers' own); 2: yes, but the template is an
    // internal one and was given one of the library's own types (basic_tls<thread_data*>, fold_tree<tree_node>): "tpl"
    int tpKind(QualType T, bool throughPointers = false) {
        for (int guard = 0; guard < 32 && !T.isNull(); ++guard) {
            const Type *P = T.getTypePtr();
            if (auto *ST = dyn_cast<SubstTemplateTypeParmType>(P)) {
                // a parameter of a standard-library template (std::atomic<std::uint64_t>::__int_type ...) says nothing by itself:
                // what it was replaced with decides (still sugar for the library's own parameter when that is where it came from)
                const TemplateTypeParmDecl *PD = ST->getReplacedParameter() ? ST->getReplacedParameter()->getDecl() : nullptr;
                bool inStd = false;
                if (PD) for (const DeclContext *DC = PD->getDeclContext(); DC; DC = DC->getParent())
                    if (DC->isStdNamespace()) { inStd = true; break; }
                if (!inStd && PD && C.AC->getSourceManager().isInSystemHeader(PD->getLocation())) inStd = true;
                if (inStd) { T = ST->getReplacementType(); continue; }
                QualType R = ST->getReplacementType().getCanonicalType();
                for (int g2 = 0; g2 < 8; ++g2) {
                    if (R->isPointerType() || R->isReferenceType()) { R = R->getPointeeType().getCanonicalType(); continue; }
                    break;
                }
                if (auto *RD = R->getAsTagDecl()) {
                    // a class or enumeration declared (at any depth: member classes, local lambdas) inside namespace tbb::detail
                    for (const DeclContext *DC = RD->getDeclContext(); DC; DC = DC->getParent())
                        if (auto *NS = dyn_cast<NamespaceDecl>(DC))
                            if (NS->getName() == "detail")
                                if (auto *PN = dyn_cast_or_null<NamespaceDecl>(NS->getParent()))
                                    if (PN->getName() == "tbb") return 2;
                }
                // a helper template of the library's internal utility namespace (tbb::detail::d0: spin_wait_*, atomic_do_once ...)
                // given a built-in scalar: the library itself chose the type
                if (PD && (R->isScalarType() || R->isVoidType())) {
                    for (const DeclContext *DC = PD->getDeclContext(); DC; DC = DC->getParent())
                        if (auto *NS = dyn_cast<NamespaceDecl>(DC))
                            if (NS->getName() == "d0")
                                if (auto *PN = dyn_cast_or_null<NamespaceDecl>(NS->getParent()))
                                    if (PN->getName() == "detail") return 2;
                }
                return 1;
            }
            if (auto *R = dyn_cast<ReferenceType>(P)) { T = R->getPointeeTypeAsWritten(); continue; }
            if (auto *PT = dyn_cast<PointerType>(P)) { if (!throughPointers) return 0; T = PT->getPointeeType(); continue; }
            QualType D = T.getSingleStepDesugaredType(*C.AC);
            if (D == T) break;
            T = D;
        }
        return 0;
    }
    bool isTP(QualType T, bool throughPointers = false) { return tpKind(T, throughPointers) != 0; }
    std::string tpOut(std::initializer_list<int> ks) {
        bool u = false, l = false;
        for (int k : ks) { if (k == 1) u = true; if (k == 2) l = true; }
        if (u) return ",\"tp\":1";
        if (l) return ",\"tp\":1,\"tpl\":1";
        return "";
    }

    std::string intInfo(QualType T) {
        if (T.isNull()) return "null";
        T = T.getCanonicalType();
        if (!T->isIntegralOrEnumerationType()) return "null";
        uint64_t w = C.AC->getTypeSize(T);
        bool sg = T->isSignedIntegerOrEnumerationType();
        return "[" + std::to_string(w) + "," + (sg ? "1" : "0") + "]";
    }

    std::string common(const Stmt *S) {
        std::string o;
        o += ",\"ln\":" + std::to_string(C.lineOf(S->getBeginLoc()));
        auto t = tryOf.find(S);
        if (t != tryOf.end()) o += ",\"tr\":" + std::to_string(t->second);
        auto c = catchOf.find(S);
        if (c != catchOf.end()) o += ",\"ca\":" + std::to_string(c->second);
        if (auto *E = dyn_cast<Expr>(S)) {
            if (!E->isValueDependent() && !E->getType().isNull()) {
                QualType T = E->getType();
                if (T->isIntegralOrEnumerationType() && E->isPRValue()) {
                    Expr::EvalResult R;
                    if (E->EvaluateAsInt(R, *C.AC, Expr::SE_NoSideEffects)) {
                        llvm::SmallString<32> s;
                        R.Val.getInt().toString(s, 10);
                        o += ",\"cv\":" + std::string(s.str());
                    }
                } else if (T->isPointerType() || T->isNullPtrType()) {
                    if (E->isNullPointerConstant(*C.AC, Expr::NPC_ValueDependentIsNotNull)) o += ",\"null\":1";
                }
            }
        }
        return o;
    }

    int id(const Stmt *S) {
        auto it = ids.find(S);
        if (it != ids.end()) return it->second;
        int n = (int)nodes.size();
        ids[S] = n;
        nodes.emplace_back();
        return n;
    }

    int child(const Expr *E) {
        if (!E) return -1;
        return node(E);
    }

    std::string calleeJson(const FunctionDecl *Callee) {
        C.emitDecl(Callee);
        return jstr(C.uid(Callee));
    }

    // Returns the node id for S (after stripping wrappers), creating it on demand.
    int node(const Stmt *S0) {
        if (!S0) return -1;
        const Stmt *S = S0;
        if (auto *E = dyn_cast<Expr>(S0)) S = strip(E);
        auto it = ids.find(S);
        if (it != ids.end() && !nodes[it->second].empty()) {
            if (S != S0) ids[S0] = it->second;
            return it->second;
        }
        int n = id(S);
        if (S != S0) ids[S0] = n;
        nodes[n] = "{}"; // guard against recursion
        std::string o = "{\"s\":" + std::to_string(n);
        auto kids = [&](llvm::ArrayRef<const Expr *> es) {
            std::string r = "[";
            bool first = true;
            for (auto *e : es) { if (!first) r += ","; first = false; r += std::to_string(child(e)); }
            return r + "]";
        };

        if (auto *E = dyn_cast<Expr>(S)) {
            if (auto *L = dyn_cast<LambdaExpr>(E)) {
                o += ",\"k\":\"lambda\"";
                if (auto *CO = L->getCallOperator()) { o += ",\"fn\":" + calleeJson(CO); }
                o += ",\"caps\":[";
                bool first = true;
                auto ci = L->capture_init_begin();
                for (auto cap = L->capture_begin(); cap != L->capture_end(); ++cap, ++ci) {
                    if (!first) o += ",";
                    first = false;
                    std::string nm = cap->capturesThis() ? "this" : (cap->capturesVariable() ? cap->getCapturedVar()->getNameAsString() : "?");
                    o += "{\"n\":" + jstr(nm) + ",\"ref\":" + (cap->getCaptureKind() == LCK_ByRef ? "1" : "0");
                    if (cap->capturesVariable()) o += ",\"v\":" + std::to_string(varId(cap->getCapturedVar()));
                    o += "}";
                }
                o += "]";
            } else if (auto *MC = dyn_cast<CXXMemberCallExpr>(E)) {
                o += ",\"k\":\"call\"";
                const CXXMethodDecl *MD = MC->getMethodDecl();
                if (MD) {
                    o += ",\"fn\":" + calleeJson(MD);
                    bool qualified = false;
                    if (auto *ME = dyn_cast<MemberExpr>(MC->getCallee()->IgnoreParens())) qualified = ME->hasQualifier();
                    if (MD->isVirtual() && !qualified) o += ",\"virt\":1";
                } else {
                    o += ",\"fx\":" + std::to_string(child(MC->getCallee()));
                }
                o += ",\"obj\":" + std::to_string(child(MC->getImplicitObjectArgument()));
                if (MC->getImplicitObjectArgument()) o += tpOut({tpKind(MC->getImplicitObjectArgument()->IgnoreParenImpCasts()->getType(), true)});
                std::vector<const Expr *> as(MC->arg_begin(), MC->arg_end());
                o += ",\"a\":" + kids(as);
            } else if (auto *OC = dyn_cast<CXXOperatorCallExpr>(E)) {
                o += ",\"k\":\"call\"";
                const FunctionDecl *Cal = OC->getDirectCallee();
                bool member = Cal && isa<CXXMethodDecl>(Cal) && !cast<CXXMethodDecl>(Cal)->isStatic();
                if (Cal) o += ",\"fn\":" + calleeJson(Cal);
                else o += ",\"fx\":" + std::to_string(child(OC->getCallee()));
                o += ",\"op\":" + jstr(getOperatorSpelling(OC->getOperator()));
                std::vector<const Expr *> as(OC->arg_begin(), OC->arg_end());
                { int u_ = 0, l_ = 0; for (auto *a : as) { int k_ = tpKind(a->IgnoreParenImpCasts()->getType()); if (k_ == 1) u_ = 1; if (k_ == 2) l_ = 2; } o += tpOut({u_, l_}); }
                if (member && !as.empty()) {
                    o += ",\"obj\":" + std::to_string(child(as[0]));
                    as.erase(as.begin());
                }
                o += ",\"a\":" + kids(as);
            } else if (auto *CE = dyn_cast<CallExpr>(E)) {
                o += ",\"k\":\"call\"";
                const FunctionDecl *Cal = CE->getDirectCallee();
                if (Cal) {
                    o += ",\"fn\":" + calleeJson(Cal);
                    if (unsigned B = Cal->getBuiltinID()) o += ",\"builtin\":" + std::to_string(B);
                } else o += ",\"fx\":" + std::to_string(child(CE->getCallee()));
                std::vector<const Expr *> as(CE->arg_begin(), CE->arg_end());
                o += ",\"a\":" + kids(as);
            } else if (auto *CC = dyn_cast<CXXConstructExpr>(E)) {
                o += ",\"k\":\"ctor\",\"fn\":" + calleeJson(CC->getConstructor());
                o += tpOut({tpKind(CC->getType())});
                if (auto *RD = CC->getConstructor()->getParent()) o += ",\"cls\":" + jstr(C.pname(RD));
                if (CC->isElidable()) o += ",\"elide\":1";
                std::vector<const Expr *> as(CC->arg_begin(), CC->arg_end());
                o += ",\"a\":" + kids(as);
            } else if (auto *NE = dyn_cast<CXXNewExpr>(E)) {
                o += ",\"k\":\"new\"";
                if (NE->getOperatorNew()) o += ",\"fn\":" + calleeJson(NE->getOperatorNew());
                o += ",\"ty\":" + jstr(C.tyStr(NE->getAllocatedType()));
                o += tpOut({tpKind(NE->getAllocatedType())});
                if (auto *RD = NE->getAllocatedType()->getAsCXXRecordDecl()) o += ",\"cls\":" + jstr(C.pname(RD));
                std::vector<const Expr *> as(NE->placement_arg_begin(), NE->placement_arg_end());
                o += ",\"pl\":" + kids(as);
                if (NE->isArray()) o += ",\"arr\":1";
                if (NE->getInitializer()) o += ",\"init\":" + std::to_string(child(NE->getInitializer()));
            } else if (auto *DE = dyn_cast<CXXDeleteExpr>(E)) {
                o += ",\"k\":\"delete\",\"sub\":" + std::to_string(child(DE->getArgument()));
                QualType DT = DE->getDestroyedType();
                if (!DT.isNull())
                    if (auto *RD = DT->getAsCXXRecordDecl())
                        if (RD->hasDefinition())
                            if (auto *DD = RD->getDestructor()) o += ",\"fn\":" + calleeJson(DD);
            } else if (auto *ME = dyn_cast<MemberExpr>(E)) {
                o += ",\"k\":\"member\",\"n\":" + jstr(ME->getMemberDecl()->getNameAsString());
                if (auto *FDl = dyn_cast<FieldDecl>(ME->getMemberDecl())) {
                    if (auto *RD = dyn_cast<CXXRecordDecl>(FDl->getParent())) o += ",\"cls\":" + jstr(C.pname(RD));
                    o += ",\"ty\":" + jstr(C.tyStr(FDl->getType()));
                } else if (auto *MDl = dyn_cast<CXXMethodDecl>(ME->getMemberDecl())) {
                    o += ",\"fn\":" + calleeJson(MDl);
                } else if (auto *VDl = dyn_cast<VarDecl>(ME->getMemberDecl())) {
                    o += ",\"static\":1,\"ty\":" + jstr(C.tyStr(VDl->getType()));
                    if (auto *RD = dyn_cast<CXXRecordDecl>(VDl->getDeclContext())) o += ",\"cls\":" + jstr(C.pname(RD));
                }
                if (ME->isArrow()) o += ",\"arrow\":1";
                o += ",\"base\":" + std::to_string(child(ME->getBase()));
            } else if (auto *DR = dyn_cast<DeclRefExpr>(E)) {
                const ValueDecl *D = DR->getDecl();
                if (auto *FDl = dyn_cast<FunctionDecl>(D)) {
                    o += ",\"k\":\"fnref\",\"fn\":" + calleeJson(FDl);
                } else if (auto *EC = dyn_cast<EnumConstantDecl>(D)) {
                    o += ",\"k\":\"enum\",\"n\":" + jstr(EC->getNameAsString()) + ",\"q\":" + jstr(C.pname(EC));
                } else {
                    o += ",\"k\":\"var\",\"n\":" + jstr(D->getNameAsString()) + ",\"v\":" + std::to_string(varId(D));
                    if (auto *VD = dyn_cast<VarDecl>(D)) {
                        if (isa<ParmVarDecl>(VD)) o += ",\"param\":" + std::to_string(cast<ParmVarDecl>(VD)->getFunctionScopeIndex());
                        else if (VD->hasGlobalStorage()) o += ",\"glob\":" + jstr(C.pname(VD));
                        else o += ",\"local\":1";
                    }
                    o += ",\"ty\":" + jstr(C.tyStr(D->getType()));
                }
            } else if (isa<CXXThisExpr>(E)) {
                o += ",\"k\":\"this\"";
            } else if (auto *UO = dyn_cast<UnaryOperator>(E)) {
                o += tpOut({tpKind(UO->getSubExpr()->IgnoreParenImpCasts()->getType())});
                o += ",\"k\":\"unop\",\"op\":" + jstr(UnaryOperator::getOpcodeStr(UO->getOpcode())) +
                     (UO->isPostfix() ? ",\"post\":1" : "") + ",\"sub\":" + std::to_string(child(UO->getSubExpr()));
            } else if (auto *BO = dyn_cast<BinaryOperator>(E)) {
                o += tpOut({tpKind(BO->getLHS()->IgnoreParenImpCasts()->getType()), tpKind(BO->getRHS()->IgnoreParenImpCasts()->getType())});
                o += ",\"k\":\"binop\",\"op\":" + jstr(BO->getOpcodeStr()) + ",\"l\":" + std::to_string(child(BO->getLHS())) +
                     ",\"r\":" + std::to_string(child(BO->getRHS()));
                // comparisons: the (common) operand type after the usual arithmetic conversions -- K14 needs the signedness
                if (BO->isComparisonOp()) o += ",\"ot\":" + intInfo(BO->getLHS()->getType());
            } else if (auto *CO = dyn_cast<ConditionalOperator>(E)) {
                o += ",\"k\":\"cond\",\"c\":" + std::to_string(child(CO->getCond())) + ",\"l\":" + std::to_string(child(CO->getTrueExpr())) +
                     ",\"r\":" + std::to_string(child(CO->getFalseExpr()));
            } else if (auto *IC = dyn_cast<ImplicitCastExpr>(E)) {
                if (IC->getCastKind() == CK_LValueToRValue) {
                    o += ",\"k\":\"rd\",\"sub\":" + std::to_string(child(IC->getSubExpr()));
                } else {
                    o += ",\"k\":\"cast\",\"impl\":1,\"from\":" + intInfo(IC->getSubExpr()->getType()) + ",\"to\":" + intInfo(IC->getType()) +
                         ",\"sub\":" + std::to_string(child(IC->getSubExpr()));
                }
            } else if (auto *EC = dyn_cast<ExplicitCastExpr>(E)) {
                o += ",\"k\":\"cast\",\"ck\":" + jstr(EC->getCastKindName()) + ",\"from\":" + intInfo(EC->getSubExpr()->getType()) +
                     ",\"to\":" + intInfo(EC->getType()) + ",\"ty\":" + jstr(C.tyStr(EC->getType())) +
                     ",\"sub\":" + std::to_string(child(EC->getSubExpr()));
            } else if (auto *AS = dyn_cast<ArraySubscriptExpr>(E)) {
                o += ",\"k\":\"index\",\"base\":" + std::to_string(child(AS->getBase())) + ",\"idx\":" + std::to_string(child(AS->getIdx()));
            } else if (isa<IntegerLiteral>(E) || isa<CXXBoolLiteralExpr>(E) || isa<CXXNullPtrLiteralExpr>(E) || isa<CharacterLiteral>(E) ||
                       isa<FloatingLiteral>(E) || isa<StringLiteral>(E) || isa<UnaryExprOrTypeTraitExpr>(E) || isa<GNUNullExpr>(E) ||
                       isa<TypeTraitExpr>(E) || isa<CXXNoexceptExpr>(E)) {
                o += ",\"k\":\"lit\"";
                if (isa<CXXNullPtrLiteralExpr>(E) || isa<GNUNullExpr>(E)) o += ",\"null\":1";
            } else if (auto *TH = dyn_cast<CXXThrowExpr>(E)) {
                o += ",\"k\":\"throw\"";
                if (TH->getSubExpr()) o += ",\"sub\":" + std::to_string(child(TH->getSubExpr()));
            } else if (auto *IL = dyn_cast<InitListExpr>(E)) {
                std::vector<const Expr *> es;
                for (auto *s : IL->inits()) es.push_back(s);
                o += ",\"k\":\"initlist\",\"a\":" + kids(es);
            } else if (auto *SV = dyn_cast<CXXScalarValueInitExpr>(E)) {
                (void)SV;
                o += ",\"k\":\"lit\",\"zero\":1";
            } else if (auto *PD = dyn_cast<CXXPseudoDestructorExpr>(E)) {
                o += ",\"k\":\"pseudodtor\",\"sub\":" + std::to_string(child(PD->getBase()));
            } else {
                o += ",\"k\":\"other\",\"cls\":" + jstr(S->getStmtClassName()) + ",\"a\":[";
                bool first = true;
                for (const Stmt *Ch : S->children()) {
                    if (!Ch) continue;
                    if (!first) o += ",";
                    first = false;
                    o += std::to_string(node(Ch));
                }
                o += "]";
            }
        } else if (auto *RS = dyn_cast<ReturnStmt>(S)) {
            o += ",\"k\":\"return\"";
            if (RS->getRetValue()) o += ",\"sub\":" + std::to_string(child(RS->getRetValue()));
        } else if (auto *DS = dyn_cast<DeclStmt>(S)) {
            o += ",\"k\":\"decl\",\"vars\":[";
            bool first = true;
            for (auto *D : DS->decls()) {
                auto *VD = dyn_cast<VarDecl>(D);
                if (!VD) continue;
                if (!first) o += ",";
                first = false;
                o += "{\"n\":" + jstr(VD->getNameAsString()) + ",\"v\":" + std::to_string(varId(VD)) + ",\"ty\":" + jstr(C.tyStr(VD->getType()));
                if (auto *RD = VD->getType()->getAsCXXRecordDecl()) o += ",\"cls\":" + jstr(C.pname(RD));
                if (VD->isStaticLocal()) o += ",\"static\":1";
                if (VD->getInit()) o += ",\"init\":" + std::to_string(child(VD->getInit()));
                o += "}";
            }
            o += "]";
        } else if (auto *CS = dyn_cast<CXXCatchStmt>(S)) {
            o += ",\"k\":\"catch\",\"ell\":" + std::string(CS->getExceptionDecl() ? "0" : "1");
            if (CS->getExceptionDecl()) o += ",\"ty\":" + jstr(C.tyStr(CS->getCaughtType()));
            { auto th = tryOfHandler.find(CS); if (th != tryOfHandler.end()) o += ",\"try\":" + std::to_string(th->second); }
        } else if (auto *TS = dyn_cast<CXXTryStmt>(S)) {
            // the handlers of the try: [[node id, 1 if catch(...)], ...]
            o += ",\"k\":\"try\",\"hs\":[";
            for (unsigned i = 0; i < TS->getNumHandlers(); ++i) {
                auto *H = TS->getHandler(i);
                if (i) o += ",";
                o += "[" + std::to_string(id(H)) + "," + (H->getExceptionDecl() ? "0" : "1") + "]";
            }
            o += "]";
        } else if (auto *GS = dyn_cast<GotoStmt>(S)) {
            o += ",\"k\":\"goto\",\"n\":" + jstr(GS->getLabel()->getNameAsString());
        } else {
            o += ",\"k\":\"stmt\",\"cls\":" + jstr(S->getStmtClassName());
        }
        o += common(S);
        o += "}";
        nodes[n] = o;
        return n;
    }

    std::string labelJson(const Stmt *L) {
        if (!L) return "";
        if (auto *CS = dyn_cast<CaseStmt>(L)) {
            std::string o = "{\"case\":";
            Expr::EvalResult R;
            if (!CS->getLHS()->isValueDependent() && CS->getLHS()->EvaluateAsInt(R, *C.AC)) {
                llvm::SmallString<32> s;
                R.Val.getInt().toString(s, 10);
                o += std::string(s.str());
            } else o += "null";
            // enumerator name when the label is an enum constant
            const Expr *LE = CS->getLHS()->IgnoreParenImpCasts();
            if (auto *CE = dyn_cast<ConstantExpr>(LE)) LE = CE->getSubExpr()->IgnoreParenImpCasts();
            if (auto *DR = dyn_cast<DeclRefExpr>(LE))
                if (auto *EC = dyn_cast<EnumConstantDecl>(DR->getDecl())) o += ",\"n\":" + jstr(EC->getNameAsString());
            return o + "}";
        }
        if (isa<DefaultStmt>(L)) return "{\"default\":1}";
        if (auto *LS = dyn_cast<LabelStmt>(L)) return "{\"label\":" + jstr(LS->getName()) + "}";
        if (auto *CS = dyn_cast<CXXCatchStmt>(L)) return "{\"catch\":" + std::to_string(node(CS)) + "}";
        return "{\"other\":" + jstr(L->getStmtClassName()) + "}";
    }

    void run() {
        const Stmt *Body = FD->getBody();
        if (!Body) return;
        scanTry(Body, -1, -1);
        if (auto *CD = dyn_cast<CXXConstructorDecl>(FD))
            for (auto *I : CD->inits())
                if (I->getInit()) scanTry(I->getInit(), -1, -1);

        CFG::BuildOptions BO;
        BO.setAllAlwaysAdd();
        BO.AddImplicitDtors = true;
        BO.AddTemporaryDtors = true;
        BO.AddInitializers = true;
        BO.AddEHEdges = false;
        BO.PruneTriviallyFalseEdges = true;
        BO.AddCXXDefaultInitExprInCtors = true;
        std::unique_ptr<CFG> G = CFG::buildCFG(FD, const_cast<Stmt *>(Body), C.AC, BO);
        if (!G) {
            *C.OS << "{\"t\":\"nocfg\",\"u\":" << jstr(C.uid(FD)) << ",\"q\":" << jstr(C.qname(FD)) << "}\n";
            return;
        }
        std::string blocks = "[";
        bool firstB = true;
        for (const CFGBlock *B : *G) {
            if (!firstB) blocks += ",";
            firstB = false;
            blocks += "{\"id\":" + std::to_string(B->getBlockID()) + ",\"e\":[";
            bool firstE = true;
            for (const CFGElement &El : *B) {
                std::string e;
                if (auto CS = El.getAs<CFGStmt>()) {
                    const Stmt *S = CS->getStmt();
                    int nid = node(S);
                    // syntactic wrappers (ExprWithCleanups, no-op casts, parens) map to the node of the wrapped expression:
                    // keep only the first element, which is the evaluation point
                    if (!emitted.insert(nid).second) continue;
                    e = std::to_string(nid);
                } else if (auto CI = El.getAs<CFGInitializer>()) {
                    const CXXCtorInitializer *I = CI->getInitializer();
                    e = "{\"i\":";
                    if (I->isAnyMemberInitializer()) e += jstr(I->getAnyMember()->getNameAsString());
                    else if (I->isBaseInitializer()) {
                        auto *RD = I->getBaseClass()->getAsCXXRecordDecl();
                        e += jstr(std::string("(base)") + (RD ? C.pname(RD) : "?"));
                    } else e += "\"(delegating)\"";
                    e += ",\"s\":" + std::to_string(I->getInit() ? node(I->getInit()) : -1) +
                         ",\"ln\":" + std::to_string(C.lineOf(I->getSourceLocation())) + "}";
                } else if (auto AD = El.getAs<CFGAutomaticObjDtor>()) {
                    const VarDecl *VD = AD->getVarDecl();
                    e = "{\"d\":\"auto\",\"v\":" + std::to_string(varId(VD)) + ",\"n\":" + jstr(VD->getNameAsString());
                    if (auto *DD = AD->getDestructorDecl(*C.AC)) e += ",\"fn\":" + calleeJson(DD);
                    QualType T = VD->getType().getNonReferenceType();
                    if (auto *RD = T->getAsCXXRecordDecl()) e += ",\"cls\":" + jstr(C.pname(RD));
                    e += ",\"ln\":" + std::to_string(C.lineOf(AD->getTriggerStmt() ? AD->getTriggerStmt()->getEndLoc() : SourceLocation())) + "}";
                } else if (auto TD = El.getAs<CFGTemporaryDtor>()) {
                    const CXXBindTemporaryExpr *BT = TD->getBindTemporaryExpr();
                    e = "{\"d\":\"temp\"";
                    if (auto *DD = TD->getDestructorDecl(*C.AC)) {
                        e += ",\"fn\":" + calleeJson(DD);
                        e += ",\"cls\":" + jstr(C.pname(DD->getParent()));
                    }
                    if (BT) e += ",\"s\":" + std::to_string(node(BT)) + ",\"ln\":" + std::to_string(C.lineOf(BT->getEndLoc()));
                    e += "}";
                } else if (auto MD = El.getAs<CFGMemberDtor>()) {
                    e = "{\"d\":\"member\",\"n\":" + jstr(MD->getFieldDecl()->getNameAsString());
                    if (auto *DD = MD->getDestructorDecl(*C.AC)) e += ",\"fn\":" + calleeJson(DD);
                    e += "}";
                } else if (auto BD = El.getAs<CFGBaseDtor>()) {
                    e = "{\"d\":\"base\"";
                    if (auto *DD = BD->getDestructorDecl(*C.AC)) e += ",\"fn\":" + calleeJson(DD);
                    e += "}";
                } else if (auto DD0 = El.getAs<CFGDeleteDtor>()) {
                    e = "{\"d\":\"delete\"";
                    if (auto *DD = DD0->getDestructorDecl(*C.AC)) e += ",\"fn\":" + calleeJson(DD);
                    if (DD0->getDeleteExpr()) e += ",\"s\":" + std::to_string(node(DD0->getDeleteExpr()));
                    e += "}";
                } else {
                    continue;
                }
                if (!firstE) blocks += ",";
                firstE = false;
                blocks += e;
            }
            blocks += "]";
            // terminator
            if (const Stmt *T = B->getTerminatorStmt()) {
                blocks += ",\"term\":{\"k\":" + jstr(T->getStmtClassName());
                if (auto *BOp = dyn_cast<BinaryOperator>(T)) blocks += ",\"op\":" + jstr(BOp->getOpcodeStr());
                // the *leaf* condition evaluated last in this block (for `a && b` the terminator condition would be the whole
                // expression); switch statements have no last condition: use the switch operand
                const Stmt *Cd = B->getLastCondition();
                if (!Cd) Cd = B->getTerminatorCondition(true);
                if (Cd) blocks += ",\"c\":" + std::to_string(node(Cd));
                blocks += ",\"ln\":" + std::to_string(C.lineOf(T->getBeginLoc())) + "}";
                if (B->getTerminator().isTemporaryDtorsBranch()) blocks += ",\"tdb\":1";
            }
            if (const Stmt *L = B->getLabel()) blocks += ",\"label\":" + labelJson(L);
            blocks += ",\"succ\":[";
            bool firstS = true;
            for (auto SI = B->succ_begin(); SI != B->succ_end(); ++SI) {
                if (!firstS) blocks += ",";
                firstS = false;
                if (const CFGBlock *SB = SI->getReachableBlock()) blocks += std::to_string(SB->getBlockID());
                else blocks += "null";
            }
            blocks += "]";
            if (B->hasNoReturnElement()) blocks += ",\"noret\":1";
            blocks += "}";
        }
        blocks += "]";

        std::string o = "{\"t\":\"fn\",\"u\":" + jstr(C.uid(FD)) + ",\"q\":" + jstr(C.qname(FD)) + ",\"p\":" + jstr(C.pname(FD));
        o += ",\"file\":" + jstr(C.fileOf(FD->getLocation())) + ",\"l0\":" + std::to_string(C.lineOf(FD->getBeginLoc())) +
             ",\"l1\":" + std::to_string(C.lineOf(FD->getEndLoc()));
        std::string kind = "function";
        if (auto *MD = dyn_cast<CXXMethodDecl>(FD)) {
            kind = "method";
            if (isa<CXXConstructorDecl>(MD)) kind = "ctor";
            else if (isa<CXXDestructorDecl>(MD)) kind = "dtor";
            else if (isa<CXXConversionDecl>(MD)) kind = "conv";
            if (MD->getParent()->isLambda()) kind = "lambda";
            o += ",\"cls\":" + jstr(C.pname(MD->getParent())) + ",\"clsq\":" + jstr(C.qname(MD->getParent()));
            std::vector<std::string> ab;
            std::set<const CXXRecordDecl *> seen;
            C.allBases(MD->getParent(), ab, seen);
            o += ",\"bases\":[";
            bool first = true;
            for (auto &b : ab) { if (!first) o += ","; first = false; o += jstr(b); }
            o += "]";
            if (MD->isVirtual()) o += ",\"virt\":1";
            if (MD->isStatic()) o += ",\"static\":1";
            if (MD->isConst()) o += ",\"const\":1";
            if (MD->size_overridden_methods()) {
                o += ",\"ov\":[";
                first = true;
                for (auto *OM : MD->overridden_methods()) { if (!first) o += ","; first = false; o += jstr(C.uid(OM)); }
                o += "]";
            }
            if (MD->getParent()->isLambda()) {
                // enclosing function of the lambda
                const DeclContext *DC = MD->getParent()->getDeclContext();
                while (DC && !isa<FunctionDecl>(DC)) DC = DC->getParent();
                if (DC) o += ",\"lparent\":" + jstr(C.uid(cast<FunctionDecl>(DC)));
            }
        }
        o += ",\"kind\":" + jstr(kind);
        if (C.isNoexcept(FD)) o += ",\"ne\":1";
        if (FD->isNoReturn()) o += ",\"noret\":1";
        if (FD->isTemplateInstantiation()) o += ",\"inst\":1";
        o += ",\"ret\":" + jstr(C.tyStr(FD->getReturnType()));
        o += ",\"params\":[";
        bool first = true;
        for (auto *P : FD->parameters()) {
            if (!first) o += ",";
            first = false;
            o += "{\"n\":" + jstr(P->getNameAsString()) + ",\"v\":" + std::to_string(varId(P)) + ",\"ty\":" + jstr(C.tyStr(P->getType())) + "}";
        }
        o += "]";
        o += ",\"entry\":" + std::to_string(G->getEntry().getBlockID()) + ",\"exit\":" + std::to_string(G->getExit().getBlockID());
        o += ",\"blocks\":" + blocks;
        o += ",\"nodes\":[";
        first = true;
        for (auto &nd : nodes) {
            if (!first) o += ",";
            first = false;
            o += nd.empty() ? "{}" : nd;
        }
        o += "]}\n";
        *C.OS << o;
    }
};

class Visitor : public RecursiveASTVisitor<Visitor> {
public:
    explicit Visitor(Ctx &c) : C(c) {}
    bool shouldVisitTemplateInstantiations() const { return true; }
    bool shouldVisitImplicitCode() const { return true; }

    void handle(const FunctionDecl *FD) {
        if (!FD) return;
        if (!FD->doesThisDeclarationHaveABody()) return;
        if (FD->isDependentContext()) {
            // a definition inside a template (pattern): recorded by position only, so that a coverage report can tell which
            // header functions have no analysed instantiation in any unit
            if (!FD->isInvalidDecl() && C.inRoots(FD->getLocation()) && C.donePat.insert(FD->getCanonicalDecl()).second) {
                const Stmt *B = FD->getBody();
                unsigned l1 = B ? C.lineOf(B->getEndLoc()) : 0;
                *C.OS << "{\"t\":\"pat\",\"p\":" + jstr(C.pname(FD)) + ",\"file\":" + jstr(C.fileOf(FD->getLocation())) +
                             ",\"ln\":" + std::to_string(C.lineOf(FD->getLocation())) + ",\"l1\":" + std::to_string(l1) + "}\n";
            }
            return;
        }
        if (FD->isInvalidDecl()) return;
        if (!C.inRoots(FD->getLocation())) return;
        if (!C.doneFns.insert(FD).second) return;
        C.emitDecl(FD);
        FnEmitter E(C, FD);
        E.run();
    }
    bool VisitFunctionDecl(FunctionDecl *FD) { handle(FD); return true; }
    bool VisitLambdaExpr(LambdaExpr *LE) { handle(LE->getCallOperator()); return true; }
    // function templates at namespace scope (the public algorithm overloads): how many specializations of each overload
    // have an instantiated body in this unit.  Lets a rule demand that the drivers cover every overload.
    bool VisitFunctionTemplateDecl(FunctionTemplateDecl *FTD) {
        const FunctionDecl *TD = FTD->getTemplatedDecl();
        if (!TD || !FTD->isThisDeclarationADefinition() || !C.inRoots(FTD->getLocation())) return true;
        if (isa<CXXMethodDecl>(TD) || TD->getDeclContext()->isDependentContext()) return true;
        if (!C.doneTmpl.insert(FTD->getCanonicalDecl()).second) return true;
        unsigned n = 0;
        for (auto *S : FTD->specializations())
            if (S->doesThisDeclarationHaveABody() || S->isDefined()) ++n;
        std::string o = "{\"t\":\"tmpl\",\"p\":" + jstr(C.pname(TD)) + ",\"file\":" + jstr(C.fileOf(FTD->getLocation())) +
                        ",\"ln\":" + std::to_string(C.lineOf(FTD->getLocation())) + ",\"np\":" + std::to_string(TD->getNumParams()) +
                        ",\"nspec\":" + std::to_string(n) + "}\n";
        *C.OS << o;
        return true;
    }
    bool VisitCXXRecordDecl(CXXRecordDecl *RD) {
        if (RD->isThisDeclarationADefinition() && !RD->isDependentContext() && !RD->isInvalidDecl() && C.inRoots(RD->getLocation()))
            C.emitClass(RD);
        return true;
    }

private:
    Ctx &C;
};

class Consumer : public ASTConsumer {
public:
    void HandleTranslationUnit(ASTContext &AC) override {
        Ctx C;
        C.AC = &AC;
        C.SM = &AC.getSourceManager();
        C.MC.reset(ItaniumMangleContext::create(AC, AC.getDiagnostics()));
        C.PP = PrintingPolicy(AC.getLangOpts());
        C.PP.SuppressTagKeyword = true;
        C.PP.Bool = true;
        std::error_code EC;
        std::unique_ptr<llvm::raw_fd_ostream> F;
        if (OutFile == "-") C.OS = &llvm::outs();
        else {
            F.reset(new llvm::raw_fd_ostream(OutFile, EC));
            if (EC) { llvm::errs() << "tbbsa: cannot open " << OutFile << "\n"; exit(3); }
            C.OS = F.get();
        }
        if (AC.getDiagnostics().hasErrorOccurred()) {
            *C.OS << "{\"t\":\"error\",\"msg\":\"compile errors\"}\n";
        }
        Visitor V(C);
        V.TraverseDecl(AC.getTranslationUnitDecl());
        *C.OS << "{\"t\":\"end\",\"fns\":" << C.doneFns.size() << "}\n";
        C.OS->flush();
    }
};

class Action : public ASTFrontendAction {
public:
    std::unique_ptr<ASTConsumer> CreateASTConsumer(CompilerInstance &, llvm::StringRef) override {
        return std::make_unique<Consumer>();
    }
};

} // namespace

int main(int argc, const char **argv) {
    auto Exp = CommonOptionsParser::create(argc, argv, Cat);
    if (!Exp) { llvm::errs() << Exp.takeError(); return 2; }
    CommonOptionsParser &OP = Exp.get();
    ClangTool Tool(OP.getCompilations(), OP.getSourcePathList());
    return Tool.run(newFrontendActionFactory<Action>().get());
}
