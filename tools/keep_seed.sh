#!/bin/bash
# Copy a sub-agent's deliverables into /verif/seeded/<name>/ and confirm them (tools/confirm_seed.sh).
# usage: tools/keep_seed.sh <name e.g. C07-3> <agent _seed dir> [runs]
set -u
NAME=$1; SRC=$2; RUNS=${3:-5}
HERE=$(cd "$(dirname "$0")/.." && pwd)
DST=$HERE/seeded/$NAME
mkdir -p "$DST"
for f in patch.diff demo.cpp README.md demo.flags run.sh baseline_hook.diff mutation-only.diff; do
    [ -f "$SRC/$f" ] && cp "$SRC/$f" "$DST/$f"
done
OUT=/tmp/confirm-$NAME.log "$HERE/tools/confirm_seed.sh" "$NAME" "$DST" "$RUNS"
cp /tmp/confirm-$NAME.log "$DST/confirm.log"
rm -f /tmp/confirm-$NAME.log /tmp/confirm-$NAME.log.build /tmp/confirm-$NAME.log.ctest
