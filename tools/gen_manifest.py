#!/usr/bin/env python3
"""Regenerates /verif/MANIFEST.json from the per-property rule modules (single source of truth: rules/C??.py)."""
import importlib
import json
import os
import sys

VERIF = os.path.dirname(os.path.dirname(os.path.abspath(__file__)))
sys.path.insert(0, VERIF)

PENDING_REASON = 'no static check is registered for this property in this revision (see DESIGN.md section 4 for the planned clauses)'

props = [json.loads(l) for l in open(os.path.join(VERIF, 'properties.jsonl'))]
checks = []
na = []
for p in props:
    pid = p['id']
    try:
        mod = importlib.import_module('rules.' + pid)
    except ImportError:
        na.append({'property_id': pid, 'reason': PENDING_REASON})
        continue
    if getattr(mod, 'NOT_APPLICABLE', None):
        na.append({'property_id': pid, 'reason': mod.NOT_APPLICABLE})
        continue
    checks.append({
        'property_id': pid,
        'quick_cmd': './check %s --tier quick' % pid,
        'thorough_cmd': './check %s --tier thorough' % pid,
        'evidence_file': '/verif/evidence/%s.json' % pid,
        'replay_cmd_template': './check %s --replay {path}' % pid,
        'engine': 'tbbsa+rules',
        'level_claimed': {
            'category': 'other',
            'text': 'Static analysis (no execution, no solver): ' + mod.EXPLANATION,
            'design_ref': 'DESIGN.md section 4, ' + pid,
        },
        'level_note': 'Decides necessary structural clauses only; NOT decided: ' + '; '.join(mod.ND) + '. Trusted base: ' +
                      '; '.join(mod.ASSUMPTIONS),
        'technique': getattr(mod, 'TECHNIQUE', 'static analysis: CFG dominance / typestate / lockset / atomic-order rules over clang '
                                               'libTooling facts'),
    })

manifest = {
    'version': 1,
    'setup_cmd': './setup.sh',
    'hooks': {
        'guard': 'ONEAPI_SRC_ONETBB_VERIF',
        'enable': 'no hooks are needed: the checks read /repo\'s sources through the clang front end only (guard name reserved, unused)',
        'baseline_off_cmd': 'ctest --test-dir /repo/_build -j8 --timeout 900',
        'source_commits': [],
        'add_only': True,
    },
    'engines': [
        {'name': 'tbbsa', 'path': 'tools/tbbsa.cc', 'serves_properties': [c['property_id'] for c in checks],
         'kind_free_text': 'clang-14 libTooling fact extractor: resolved callees, CFG with implicit destructors, constant-folded '
                           'values, template instantiations via driver TUs'},
        {'name': 'rules', 'path': 'engine/ + rules/', 'serves_properties': [c['property_id'] for c in checks],
         'kind_free_text': 'python rule engine: dominance, collective edge dominance, typestate pairing, must-lockset, reaching '
                           'definitions, effect summaries over the class-local call graph, compile-fail witnesses'},
    ],
    'checks': checks,
    'not_applicable': na,
    'notes': 'All checks are static analyses of /repo\'s current working tree; exit 2 (ANALYSIS-BROKEN) is used when an anchor '
             'vanished or a rule matched fewer instances than its recorded floor. selftest/run.py replays the mutation catalogue '
             'on a scratch copy (not a registered check).',
}
with open(os.path.join(VERIF, 'MANIFEST.json'), 'w') as f:
    json.dump(manifest, f, indent=1)
print('MANIFEST.json: %d checks, %d not_applicable' % (len(checks), len(na)))
