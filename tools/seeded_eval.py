#!/usr/bin/env python3
"""Run the registered checks against every kept seeded change (seeded/<name>/patch.diff) and print which check / clause
reports it.  Works on a scratch copy of /repo's include/ and src/ (VERIF_REPO), so /repo is not touched; the result for
a single change is the same as `git -C /repo apply seeded/<name>/patch.diff; ./check <prop>; git -C /repo checkout -- .`.

usage: tools/seeded_eval.py [--all-props] [--tier quick|thorough] [NAME ...]   (also accepts a directory with patch.diff)
"""
import json
import os
import re
import shutil
import subprocess
import sys
import tempfile

VERIF = os.path.dirname(os.path.dirname(os.path.abspath(__file__)))


def main():
    args = [a for a in sys.argv[1:] if not a.startswith('--')]
    allprops = '--all-props' in sys.argv
    tier = 'thorough' if '--thorough' in sys.argv else 'quick'
    names = args or sorted(os.listdir(os.path.join(VERIF, 'seeded')))
    scratch = tempfile.mkdtemp(prefix='vseed-')
    rows = []
    try:
        for name in names:
            d = name if os.path.isdir(name) else os.path.join(VERIF, 'seeded', name)
            patch = os.path.join(d, 'patch.diff')
            if not os.path.exists(patch):
                continue
            for sub in ('include', 'src'):
                shutil.rmtree(os.path.join(scratch, sub), ignore_errors=True)
                shutil.copytree(os.path.join('/repo', sub), os.path.join(scratch, sub))
            p = subprocess.run(['patch', '-p1', '-s', '-i', patch], cwd=scratch, stdout=subprocess.PIPE, stderr=subprocess.STDOUT, universal_newlines=True)
            if p.returncode != 0:
                rows.append((name, '-', 'PATCH DOES NOT APPLY: ' + p.stdout.strip()[:200]))
                continue
            meta = {}
            if os.path.exists(os.path.join(d, 'meta.json')):
                meta = json.load(open(os.path.join(d, 'meta.json')))
            m_ = re.search(r'(C\d\d)', d)
            prop = meta.get('property') or (m_.group(1) if m_ else 'C01')
            props = ['C%02d' % i for i in range(1, 21)] if allprops else [prop]
            env = dict(os.environ, VERIF_REPO=scratch)
            for pr in props:
                r = subprocess.run([os.path.join(VERIF, 'check'), pr, '--tier', tier], env=env, cwd=VERIF, stdout=subprocess.PIPE,
                                   stderr=subprocess.STDOUT, universal_newlines=True)
                hits = sorted(set(re.findall(r'\[(D\d+[a-z]?/K\d+)\]', r.stdout)))
                if r.returncode == 1:
                    rows.append((name, pr, 'CAUGHT  ' + ', '.join(hits)))
                elif r.returncode == 0:
                    if pr == prop:
                        rows.append((name, pr, 'missed'))
                else:
                    rows.append((name, pr, 'ANALYSIS-BROKEN rc=%d: %s' % (r.returncode, r.stdout.strip().splitlines()[-1][:160] if r.stdout.strip() else '')))
    finally:
        shutil.rmtree(scratch, ignore_errors=True)
    for row in rows:
        print('%-28s %-4s %s' % row)
    # evidence files were rewritten for the scratch tree: restore the ones of the real tree
    return 0


if __name__ == '__main__':
    sys.exit(main())
