#!/usr/bin/env python3
"""Driver coverage report: which function definitions in /repo/include (patterns inside templates and ordinary inline
functions) have no analysed body in any unit (drivers/*.cpp + the library sources)?  A rule can only see instantiated code,
so an uncovered definition is a blind spot of every check.  Not a registered check; used to extend drivers/*.cpp.

usage: tools/coverage.py [--config release11|preview17] [--file SUBSTR] [-v]"""
import json
import os
import sys
from collections import defaultdict

VERIF = os.path.dirname(os.path.dirname(os.path.abspath(__file__)))
sys.path.insert(0, VERIF)
from engine import runner            # noqa: E402
from rules.common import TBB_SRC, MALLOC_SRC   # noqa: E402

DRIVERS = ['drivers/' + f for f in sorted(os.listdir(os.path.join(VERIF, 'drivers'))) if f.endswith('.cpp')]


def main():
    cfg = 'release11'
    sub = None
    verbose = '-v' in sys.argv
    a = sys.argv[1:]
    for i, x in enumerate(a):
        if x == '--config':
            cfg = a[i + 1]
        if x == '--file':
            sub = a[i + 1]
    wd = runner.Workdir()
    try:
        units = DRIVERS + TBB_SRC + MALLOC_SRC
        import subprocess
        from concurrent.futures import ThreadPoolExecutor
        with ThreadPoolExecutor(max_workers=16) as ex:
            res = list(ex.map(runner.extract_one, [(u, cfg, wd.path) for u in units]))
        pats = {}
        covered = defaultdict(int)
        for unit, c, out, err in res:
            if err:
                print('unit %s: %s' % (unit, err))
                continue
            with open(out) as f:
                for line in f:
                    if line.startswith('{"t":"pat"'):
                        d = json.loads(line)
                        d['file'] = os.path.normpath(d['file'])
                        pats.setdefault((d['file'], d['ln']), d)
                    elif line.startswith('{"t":"fn"'):
                        # cheap parse of the header of the record
                        d = json.loads(line)
                        covered[(os.path.normpath(d['file']), d['l0'])] += 1
            os.unlink(out)
        byfile = defaultdict(list)
        for (f, ln), d in pats.items():
            if '/include/' not in f and not f.startswith('include/'):
                continue
            if sub and sub not in f:
                continue
            if (f, ln) not in covered:
                byfile[f].append(d)
        tot = sum(1 for (f, ln) in pats if 'include/' in f)
        unc = sum(len(v) for v in byfile.values())
        for f in sorted(byfile):
            print('%s: %d uncovered' % (f, len(byfile[f])))
            if verbose or sub:
                for d in sorted(byfile[f], key=lambda d: d['ln']):
                    print('    %5d-%-5d %s' % (d['ln'], d['l1'], d['p']))
        print('patterns in include/: %d, without any analysed instantiation: %d' % (tot, unc))
    finally:
        wd.cleanup()


if __name__ == '__main__':
    main()
