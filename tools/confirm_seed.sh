#!/bin/bash
# Confirmation of one seeded change (never run by a registered check; documents what was run before a change was kept
# under /verif/seeded/<id>/).
#
# usage: tools/confirm_seed.sh <name> <dir-with-patch.diff-and-demo.cpp> [runs]
#
# Needs a scratch git worktree of /repo at $WT (default /tmp/confirm-wt) with a configured build directory $WT/_build
# (cmake -G Ninja -DCMAKE_BUILD_TYPE=RelWithDebInfo -DTBB_TEST=ON, same as /repo/_build).  /repo itself is only read
# (unpatched headers and libraries come from /repo and /repo/_build).
#   1. apply patch.diff in the worktree, rebuild everything            -> "compiles"
#   2. run the pinned test suite there                                 -> "existing tests pass"
#   3. build demo.cpp against patched and unpatched tree, run N times  -> "fails with / passes without"
#   4. revert the worktree
set -u
NAME=$1
SEED=$(readlink -f "$2")
RUNS=${3:-5}
WT=${WT:-/tmp/confirm-wt}
OUT=${OUT:-/tmp/confirm-$NAME.log}
exec > >(tee "$OUT") 2>&1
git -C "$WT" checkout -q -- . || exit 2
git -C "$WT" apply "$SEED/patch.diff" || { echo "CONFIRM $NAME: patch does not apply"; exit 2; }
echo "== build"
if ! ninja -C "$WT/_build" > "$OUT.build" 2>&1; then
    tail -20 "$OUT.build"; echo "CONFIRM $NAME: DOES NOT COMPILE"; git -C "$WT" checkout -q -- .; exit 1
fi
grep -c "warning:" "$OUT.build" | sed 's/^/warnings: /'
echo "== tests"
ctest --test-dir "$WT/_build" -j8 --timeout 900 > "$OUT.ctest" 2>&1
tail -8 "$OUT.ctest"
FAILED=$(grep -E "^\s*[0-9]+ - " "$OUT.ctest" | grep -v -E "test_tcm_(enabled|disabled)" | wc -l)
echo "failed tests other than test_tcm_*: $FAILED"
echo "== demo"
PL=$(dirname "$(ls "$WT"/_build/*/libtbb.so | head -1)")
UL=$(dirname "$(ls /repo/_build/*/libtbb.so | head -1)")
W=$(mktemp -d /tmp/confirm-demo.XXXXXX)
EXTRA=""
[ -f "$SEED/demo.flags" ] && EXTRA=$(cat "$SEED/demo.flags")
g++ -std=c++17 -O2 -g -pthread $EXTRA -I"$WT/include" -I"$WT" "$SEED/demo.cpp" -o "$W/demo_patched" -L"$PL" -ltbb -ltbbmalloc -Wl,-rpath,"$PL" || { echo "demo does not build (patched)"; }
g++ -std=c++17 -O2 -g -pthread $EXTRA -I/repo/include -I/repo "$SEED/demo.cpp" -o "$W/demo_orig" -L"$UL" -ltbb -ltbbmalloc -Wl,-rpath,"$UL" || { echo "demo does not build (unpatched)"; }
for v in orig patched; do
    f=0
    for i in $(seq "$RUNS"); do
        timeout 180 "$W/demo_$v" > "$W/out.txt" 2>&1; rc=$?
        [ $rc -ne 0 ] && f=$((f+1))
        [ "$i" -eq 1 ] && { echo "--- $v run 1 rc=$rc"; tail -6 "$W/out.txt"; }
    done
    echo "DEMO $v: $f of $RUNS runs failed"
done
rm -rf "$W"
git -C "$WT" checkout -q -- .
echo "CONFIRM $NAME: done (failed tests: $FAILED)"
