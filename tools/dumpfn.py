#!/usr/bin/env python3
"""debug helper: tools/dumpfn.py <unit> <substring of qualified name> [config]  -- prints CFG blocks and nodes of matching functions"""
import os
import sys
sys.path.insert(0, os.path.dirname(os.path.dirname(os.path.abspath(__file__))))
from engine import runner   # noqa: E402


def main():
    unit, pat = sys.argv[1], sys.argv[2]
    config = sys.argv[3] if len(sys.argv) > 3 else 'release11'
    wd = runner.Workdir()
    facts = runner.extract([unit], config, wd)
    for fn in facts.fns.values():
        if pat in fn.q:
            print('==', fn.q, fn.d.get('kind'), fn.d['file'], fn.d['l0'], 'lparent', fn.d.get('lparent'))
            for b, blk in sorted(fn.blocks.items()):
                print(' B%s succ=%s term=%s label=%s' % (b, blk['succ'], blk.get('term'), blk.get('label')))
                for e in blk['e']:
                    if isinstance(e, int):
                        print('    %d: %s' % (e, {k: v for k, v in fn.nodes[e].items() if k not in ('tr', 'ca')}))
                    else:
                        print('    %s' % (e,))
            if len(sys.argv) > 4:
                for i, n in sorted(fn.nodes.items()):
                    print('  n%d %s' % (i, n))


if __name__ == '__main__':
    main()
