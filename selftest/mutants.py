"""Mutation catalogue (DESIGN.md appendix A).  Each mutant is one realistic breakage that still compiles; the named clause
must report it.  Edits are (relative file, exact old text, new text); the old text must occur exactly once.
BENIGN edits change the code without breaking the property and must stay silent."""

AS_CPP = 'src/tbb/arena_slot.cpp'
AS_H = 'src/tbb/arena_slot.h'
TD_CPP = 'src/tbb/task_dispatcher.cpp'
PF_H = 'include/oneapi/tbb/parallel_for.h'
MB_H = 'src/tbb/mailbox.h'

MUTANTS = [
    # ---------------------------------------------------------------- C01
    dict(name='c01-get_task-no-fence', prop='C01', clause='D1', edits=[
        (AS_CPP, "        T = --tail;\n",
         "        T = tail.load(std::memory_order_relaxed) - 1; tail.store(T, std::memory_order_relaxed);\n")]),
    dict(name='c01-steal-head-acqrel', prop='C01', clause='D1', edits=[
        (AS_CPP, "        H = ++head;\n", "        H = head.fetch_add(1, std::memory_order_acq_rel) + 1;\n")]),
    dict(name='c01-steal-tail-relaxed', prop='C01', clause='D1', edits=[
        (AS_CPP, "(std::intptr_t)(tail.load(std::memory_order_acquire))", "(std::intptr_t)(tail.load(std::memory_order_relaxed))")]),
    dict(name='c01-steal-no-unlock', prop='C01', clause='D2', edits=[
        (AS_CPP, "            __TBB_ASSERT( !result, nullptr );\n            goto unlock;\n",
         "            __TBB_ASSERT( !result, nullptr );\n            return nullptr;\n")]),
    dict(name='c01-get_task-no-release', prop='C01', clause='D2', edits=[
        (AS_CPP, "                release_task_pool();\n            }\n        }\n        result = get_task_impl",
         "            }\n        }\n        result = get_task_impl")]),
    dict(name='c01-lock-by-store', prop='C01', clause='D2', edits=[
        (AS_H, "if (victim_task_pool != LockedTaskPool && task_pool.compare_exchange_strong(expected, LockedTaskPool) ) {",
         "if (victim_task_pool != LockedTaskPool && (task_pool.store(LockedTaskPool), true) ) {")]),
    dict(name='c01-unlock-relaxed', prop='C01', clause='D2', edits=[
        (AS_H, "        task_pool.store(victim_task_pool, std::memory_order_release);",
         "        task_pool.store(victim_task_pool, std::memory_order_relaxed);")]),
    dict(name='c01-start_for-cancel-no-finalize', prop='C01', clause='D7', edits=[
        (PF_H, "    finalize(ed);\n    return nullptr;\n}\n\n//! Calls the function with values from range [begin, end) with a step provided",
         "    (void)ed;\n    return nullptr;\n}\n\n//! Calls the function with values from range [begin, end) with a step provided")]),
    dict(name='c01-tree-refcount-1', prop='C01', clause='D8', edits=[
        (PF_H, "alloc.new_object<tree_node>(ed, my_parent, 2, alloc);", "alloc.new_object<tree_node>(ed, my_parent, 1, alloc);")]),
    dict(name='c01-spawn-before-mail', prop='C01', clause='D4', edits=[
        (TD_CPP, "        proxy->outbox->push(proxy);\n        // Spawn proxy to the local task pool\n        spawn_and_notify(*proxy, slot, a);",
         "        spawn_and_notify(*proxy, slot, a);\n        proxy->outbox->push(proxy);")]),
    dict(name='c01-extract-by-store', prop='C01', clause='D4', edits=[
        (MB_H, "            if ( task_and_tag.compare_exchange_strong(tat, cleaner_bit) ) {",
         "            if ( (task_and_tag.store(cleaner_bit), true) ) {")]),
    dict(name='c01-extract-free-on-success', prop='C01', clause='D4', edits=[
        (AS_CPP, "        ed.affinity_slot = aff_id;\n        return t;",
         "        ed.affinity_slot = aff_id;\n        tp.allocator.delete_object(&tp, ed);\n        return t;")]),
    dict(name='c01-mailbox-link-relaxed', prop='C01', clause='D4', edits=[
        (MB_H, "        link->store(t, std::memory_order_release);", "        link->store(t, std::memory_order_relaxed);")]),
    dict(name='c01-stream-push-unlocked', prop='C01', clause='D5', edits=[
        ('src/tbb/task_stream.h', "        if( lock.try_acquire( lanes[lane_idx].my_mutex ) ) {\n            lanes[lane_idx].my_queue.push_back( source );",
         "        if( lock.try_acquire( lanes[lane_idx].my_mutex ) ) {\n            lock.release();\n            lanes[lane_idx].my_queue.push_back( source );")]),
    dict(name='c01-stream-clear-always', prop='C01', clause='D5', edits=[
        ('src/tbb/task_stream.h', "            result = this->get_item( lane.my_queue );\n            if( lane.my_queue.empty() )\n                clear_one_bit( population, lane_idx );",
         "            result = this->get_item( lane.my_queue );\n            clear_one_bit( population, lane_idx );")]),
    dict(name='c01-wait-notify-nonzero', prop='C01', clause='D6', edits=[
        ('include/oneapi/tbb/detail/_task.h', "        if (!r) {\n            // Some external waiters", "        if (r) {\n            // Some external waiters")]),
    dict(name='c01-vertex-release-always-parent', prop='C01', clause='D6', edits=[
        ('include/oneapi/tbb/detail/_task.h', "        if (ref == 0) {\n            parent->release();\n        }", "        (void)ref;\n        parent->release();\n")]),
    dict(name='c01-wait-before-loop', prop='C01', clause='D9', edits=[
        (TD_CPP, "    external_waiter waiter{ *tls->my_arena, wait_ctx };\n    t = local_td.local_wait_for_all(t, waiter);",
         "    external_waiter waiter{ *tls->my_arena, wait_ctx };\n    if (t || wait_ctx.continue_execution()) t = local_td.local_wait_for_all(t, waiter);")]),
    dict(name='c01-function_task-exec-no-finalize', prop='C01', clause='D7', edits=[
        ('include/oneapi/tbb/task_group.h', "        task* res = task_ptr_or_nullptr(m_func);\n        finalize(&ed);\n        return res;",
         "        task* res = task_ptr_or_nullptr(m_func);\n        (void)ed;\n        return res;")]),
    dict(name='c01-invoker-cancel-no-release', prop='C01', clause='D7', edits=[
        ('include/oneapi/tbb/parallel_invoke.h', "    task* cancel(execution_data& ed) override {\n        parent_wait_ctx.release(ed);\n        return nullptr;\n    }\n\n    const Function& my_function;",
         "    task* cancel(execution_data& ed) override {\n        (void)ed;\n        return nullptr;\n    }\n\n    const Function& my_function;")]),
]

BENIGN = [
    dict(name='c01-b-fetch_sub', prop='C01', edits=[
        (AS_CPP, "        T = --tail;\n", "        T = tail.fetch_sub(1) - 1;\n")]),
    dict(name='c01-b-stronger-orders', prop='C01', edits=[
        (AS_CPP, "(std::intptr_t)(tail.load(std::memory_order_acquire))", "(std::intptr_t)(tail.load(std::memory_order_seq_cst))"),
        (AS_H, "        task_pool.store(victim_task_pool, std::memory_order_release);", "        task_pool.store(victim_task_pool);")]),
    dict(name='c01-b-finalize-helper', prop='C01', edits=[
        (PF_H, "    finalize(ed);\n    return nullptr;\n}\n\n//! Calls the function with values from range [begin, end) with a step provided",
         "    auto do_fin = [&] { finalize(ed); };\n    do_fin();\n    return nullptr;\n}\n\n//! Calls the function with values from range [begin, end) with a step provided")]),
]
