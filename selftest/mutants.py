"""Mutation catalogue (DESIGN.md appendix A).  Each mutant is one realistic breakage that still compiles; the named clause
must report it.  Edits are (relative file, exact old text, new text); the old text must occur exactly once.
BENIGN edits change the code without breaking the property and must stay silent."""

AS_CPP = 'src/tbb/arena_slot.cpp'
AS_H = 'src/tbb/arena_slot.h'
TD_CPP = 'src/tbb/task_dispatcher.cpp'
PF_H = 'include/oneapi/tbb/parallel_for.h'
MB_H = 'src/tbb/mailbox.h'
SC_H = 'src/tbb/scheduler_common.h'
CO_H = 'include/oneapi/tbb/collaborative_call_once.h'
ETS_H = 'include/oneapi/tbb/enumerable_thread_specific.h'
FE_CPP = 'src/tbbmalloc/frontend.cpp'
AR_CPP = 'src/tbb/arena.cpp'
FGJ_H = 'include/oneapi/tbb/detail/_flow_graph_join_impl.h'
FG_H = 'include/oneapi/tbb/flow_graph.h'
IB_H = 'include/oneapi/tbb/detail/_flow_graph_item_buffer_impl.h'
PFE_H = 'include/oneapi/tbb/parallel_for_each.h'
FGN_H = 'include/oneapi/tbb/detail/_flow_graph_node_impl.h'
FGC_H = 'include/oneapi/tbb/detail/_flow_graph_cache_impl.h'
CPQ_H = 'include/oneapi/tbb/concurrent_priority_queue.h'
AGG_H = 'include/oneapi/tbb/detail/_aggregator.h'
CUB_H = 'include/oneapi/tbb/detail/_concurrent_unordered_base.h'
CSL_H = 'include/oneapi/tbb/detail/_concurrent_skip_list.h'
CV_H = 'include/oneapi/tbb/concurrent_vector.h'
CHM_H = 'include/oneapi/tbb/concurrent_hash_map.h'
CQB_H = 'include/oneapi/tbb/detail/_concurrent_queue_base.h'
SRW_H = 'include/oneapi/tbb/spin_rw_mutex.h'
QRW_CPP = 'src/tbb/queuing_rw_mutex.cpp'
PP_CPP = 'src/tbb/parallel_pipeline.cpp'
PT_H = 'include/oneapi/tbb/partitioner.h'
TGC_CPP = 'src/tbb/task_group_context.cpp'
CD_H = 'src/tbb/cancellation_disseminator.h'
TDH = 'src/tbb/task_dispatcher.h'
PR_H = 'include/oneapi/tbb/parallel_reduce.h'
TG_H = 'include/oneapi/tbb/task_group.h'
CM_H = 'src/tbb/concurrent_monitor.h'
CQ_H = 'include/oneapi/tbb/concurrent_queue.h'

MUTANTS = [
    dict(name='c15-limiter-decrement-excess-not-bounded-by-the-puts-in-flight', prop='C15', clause='D1', edits=[('include/oneapi/tbb/flow_graph.h', '                    my_future_decrement += (size_t(delta) - my_count);\n                    trim_future_decrement();\n', '                    my_future_decrement += (size_t(delta) - my_count);\n')]),
    dict(name='c15-limiter-rejected-put-leaves-a-surplus-decrement', prop='C15', clause='D1', edits=[('include/oneapi/tbb/flow_graph.h', '        if ( !rtask ) {  // try_put_task failed.\n            spin_mutex::scoped_lock lock(my_mutex);\n            --my_tries;\n            trim_future_decrement();\n', '        if ( !rtask ) {  // try_put_task failed.\n            spin_mutex::scoped_lock lock(my_mutex);\n            --my_tries;\n')]),
    dict(name='c15-limiter-surplus-bounded-by-the-threshold-instead', prop='C15', clause='D1', edits=[('include/oneapi/tbb/flow_graph.h', '        if ( my_future_decrement > my_tries )\n            my_future_decrement = my_tries;\n', '        if ( my_future_decrement > my_threshold )\n            my_future_decrement = my_threshold;\n')]),
    dict(name='c15-limiter-no-recheck-after-future-decrement', prop='C15', clause='D1', edits=[(FG_H, """            --my_tries;
            trim_future_decrement();
            // A decrement that arrived while this put was in flight may have made room again:
            // pull from the predecessors that were rejected in the meantime (as forward_task() does)
            if ( check_conditions() && is_graph_active(this->my_graph) ) {
                typedef forward_task_bypass<limiter_node<T, DecrementType>> task_type;
                d1::small_object_allocator allocator{};
                graph_task* ftask = allocator.new_object<task_type>( my_graph, allocator, *this );
                spawn_in_graph_arena(graph_reference(), *ftask);
            }
        }
        return rtask;""", """            --my_tries;
            trim_future_decrement();
        }
        return rtask;""")]),
    dict(name='c17-seed2-foreign-free-skips-object-start', prop='C17', clause='D1', edits=[(FE_CPP, """        FreeObject *objectToFree = block->findObjectToFree(object);
        block->freePublicObject(objectToFree);""", """        block->freePublicObject(static_cast<FreeObject*>(object));""")]),
    dict(name='c19-seed6-stale-next-link-after-a-failed-cas', prop='C19', clause='D5', edits=[('include/oneapi/tbb/enumerable_thread_specific.h', '            for(;;) {\n                a->next = r;\n                call_itt_notify(releasing,a);\n                array* new_r = r;\n                if( my_root.compare_exchange_strong(new_r, a) ) break;\n                call_itt_notify(acquired, new_r);\n                __TBB_ASSERT(new_r != nullptr, nullptr);\n                if( new_r->lg_size >= s ) {\n                    // Another thread inserted an equal or  bigger array, so our array is superfluous.\n                    deallocate(a);\n                    break;\n                }\n                r = new_r;\n            }\n', '            a->next = r;\n            call_itt_notify(releasing,a);\n            // compare_exchange_strong reloads the current root into r when it fails\n            while( !my_root.compare_exchange_strong(r, a) ) {\n                call_itt_notify(acquired, r);\n                __TBB_ASSERT(r != nullptr, nullptr);\n                if( r->lg_size >= s ) {\n                    // Another thread inserted an equal or  bigger array, so our array is superfluous.\n                    deallocate(a);\n                    break;\n                }\n            }\n')]),
    dict(name='c19-next-link-set-once-before-the-retry-loop', prop='C19', clause='D5', edits=[('include/oneapi/tbb/enumerable_thread_specific.h', '            for(;;) {\n                a->next = r;\n                call_itt_notify(releasing,a);\n                array* new_r = r;\n                if( my_root.compare_exchange_strong(new_r, a) ) break;\n                call_itt_notify(acquired, new_r);\n                __TBB_ASSERT(new_r != nullptr, nullptr);\n                if( new_r->lg_size >= s ) {\n                    // Another thread inserted an equal or  bigger array, so our array is superfluous.\n                    deallocate(a);\n                    break;\n                }\n                r = new_r;\n            }\n', '            a->next = r;\n            for(;;) {\n                call_itt_notify(releasing,a);\n                array* new_r = r;\n                if( my_root.compare_exchange_strong(new_r, a) ) break;\n                call_itt_notify(acquired, new_r);\n                __TBB_ASSERT(new_r != nullptr, nullptr);\n                if( new_r->lg_size >= s ) {\n                    // Another thread inserted an equal or  bigger array, so our array is superfluous.\n                    deallocate(a);\n                    break;\n                }\n                r = new_r;\n                continue;\n            }\n')]),
    dict(name='c19-seed5-table-swapped-without-its-key', prop='C19', clause='D5', edits=[('include/oneapi/tbb/enumerable_thread_specific.h', '       using std::swap;\n       __TBB_ASSERT(this!=&other, "Don\'t swap an instance with itself");\n       swap(my_key, other.my_key);\n       super::table_swap(other);', '       __TBB_ASSERT(this!=&other, "Don\'t swap an instance with itself");\n       super::table_swap(other);')]),
    dict(name='c19-table-swapped-without-its-count', prop='C19', clause='D5', edits=[('include/oneapi/tbb/enumerable_thread_specific.h', '       swap_atomics_relaxed(my_count, other.my_count);\n', '')]),
    dict(name='c19-seed2-ets-array-sized-from-root', prop='C19', clause='D5', edits=[('include/oneapi/tbb/enumerable_thread_specific.h',
        "            std::size_t s = r ? r->lg_size : 2;\n            while( c > std::size_t(1)<<(s-1) ) ++s;", "            std::size_t s = r ? r->lg_size + 1 : 2;")]),
    dict(name='c10-seed2-stale-prev-after-upgrade', prop='C10', clause='D1', edits=[(CHM_H, """            bucket_accessor b( this, hash & mask );
        search:
            node_base* prev = nullptr;
            erase_node = b()->node_list.load(std::memory_order_relaxed);""", """            bucket_accessor b( this, hash & mask );
            node_base* prev = nullptr;
        search:
            erase_node = b()->node_list.load(std::memory_order_relaxed);""")]),
    dict(name='c16-seed2-destroy-takes-largest-control', prop='C16', clause='D5', edits=[('src/tbb/global_control.cpp',
        "            new_active = (*c->my_list.begin())->my_value;", "            new_active = (*c->my_list.rbegin())->my_value;")]),
    dict(name='c15-seed2-duplicate-key-accepted', prop='C15', clause='D2', edits=[('include/oneapi/tbb/detail/_flow_graph_join_impl.h',
        "                        current->status.store( was_inserted ? SUCCEEDED : FAILED, std::memory_order_release);",
        "                        tbb::detail::suppress_unused_warning(was_inserted);\n                        current->status.store( SUCCEEDED, std::memory_order_release);")]),
    dict(name='c15-rejected-duplicate-overwrites', prop='C15', clause='D2', edits=[('include/oneapi/tbb/detail/_flow_graph_tagged_buffer_impl.h',
        "            // An element with this key is already stored: the insertion is rejected and the stored element is kept\n            return false;",
        "            p->destroy_element();\n            p->create_element(v, std::forward<Args>(args)...);\n            return false;")]),
    dict(name='c13-seed2-shared-push-status', prop='C13', clause='D3', edits=[(CPQ_H, """                    my_size.store(my_size.load(std::memory_order_relaxed) + 1, std::memory_order_relaxed);
                    tmp->status.store(uintptr_t(SUCCEEDED), std::memory_order_release);
                }
#if TBB_USE_EXCEPTIONS
                catch(...) {
                    tmp->status.store(uintptr_t(FAILED), std::memory_order_release);
                }
#endif""", """                    my_size.store(my_size.load(std::memory_order_relaxed) + 1, std::memory_order_relaxed);
                }
#if TBB_USE_EXCEPTIONS
                catch(...) {
                    push_status = FAILED;
                }
#endif
                tmp->status.store(uintptr_t(push_status), std::memory_order_release);"""),
        (CPQ_H, "        cpq_operation* tmp, *pop_list = nullptr;\n", "        cpq_operation* tmp, *pop_list = nullptr;\n        operation_status push_status = SUCCEEDED;\n")]),
    dict(name='c09-seed2-wakeup-predicate-equality', prop='C09', clause='D5', edits=[('src/tbb/concurrent_bounded_queue.cpp',
        "    bool operator() ( std::uintptr_t ticket ) const { return static_cast<std::size_t>(ticket) <= my_ticket; }",
        "    bool operator() ( std::uintptr_t ticket ) const { return static_cast<std::size_t>(ticket) == my_ticket; }")]),
    dict(name='c02-seed2-wakeup-predicate-equality', prop='C02', clause='D5', edits=[('src/tbb/concurrent_bounded_queue.cpp',
        "    bool operator() ( std::uintptr_t ticket ) const { return static_cast<std::size_t>(ticket) <= my_ticket; }",
        "    bool operator() ( std::uintptr_t ticket ) const { return static_cast<std::size_t>(ticket) == my_ticket; }")]),
    dict(name='c11-seed2-block-zero-fill-across-segments', prop='C11', clause='D8', edits=[(CV_H, '        for (size_type i = idx; i < end_idx; ++i) {\n            // Only the last segment of the range is allocated in advance,\n            // the segments between the failed element and the last one may be not allocated yet\n            if (table[this->segment_index_of(i)].load(std::memory_order_relaxed) > this->segment_allocation_failure_tag) {\n                zero_unconstructed_elements(&this->internal_subscript(i), /*count =*/1);\n            }\n        }\n    }\n', '        if (idx < end_idx && table[this->segment_index_of(idx)].load(std::memory_order_relaxed) > this->segment_allocation_failure_tag) {\n            zero_unconstructed_elements(&this->internal_subscript(idx), /*count =*/end_idx - idx);\n        }\n    }\n')]),
    dict(name='c11-cleanup-touches-unallocated-segment', prop='C11', clause='D8', edits=[(CV_H, '        for (size_type i = idx; i < end_idx; ++i) {\n            // Only the last segment of the range is allocated in advance,\n            // the segments between the failed element and the last one may be not allocated yet\n            if (table[this->segment_index_of(i)].load(std::memory_order_relaxed) > this->segment_allocation_failure_tag) {\n                zero_unconstructed_elements(&this->internal_subscript(i), /*count =*/1);\n            }\n        }\n    }\n', '        for (size_type i = idx; i < end_idx; ++i) {\n            zero_unconstructed_elements(&this->internal_subscript(i), /*count =*/1);\n        }\n    }\n')]),
    dict(name='c05-seed2-3d-ratio-wrong-grainsize', prop='C05', clause='D2', edits=[('include/oneapi/tbb/blocked_range3d.h',
        "               first.size()*double(second.grainsize()) < second.size()*double(first.grainsize()));",
        "               first.size()*double(second.grainsize()) < second.size()*double(second.grainsize()));")]),
    dict(name='c05-2d-ratio-own-grainsize', prop='C05', clause='D2', edits=[('include/oneapi/tbb/blocked_range2d.h',
        "             my_rows.size()*double(my_cols.grainsize()) < my_cols.size()*double(my_rows.grainsize())) ) {",
        "             my_rows.size()*double(my_rows.grainsize()) < my_cols.size()*double(my_cols.grainsize())) ) {")]),
    dict(name='c06-seed2-scan-no-virtual-steal', prop='C06', clause='D4', edits=[('include/oneapi/tbb/parallel_scan.h',
        "    bool treat_as_stolen = m_is_right_child && (is_stolen(ed) || &m_body.get()!=m_parent->m_result.m_left_sum);",
        "    bool treat_as_stolen = m_is_right_child && is_stolen(ed);")]),
    dict(name='c08-seed2-queuing-mutex-not-rearmed', prop='C08', clause='D6', edits=[('include/oneapi/tbb/queuing_mutex.h',
        "            m_next.store(nullptr, std::memory_order_relaxed);\n            m_going.store(0U, std::memory_order_relaxed);\n\n            // x86 compare exchange operation always has a strong fence",
        "            m_next.store(nullptr, std::memory_order_relaxed);\n\n            // x86 compare exchange operation always has a strong fence")]),
    dict(name='c07-seed2-token-reassigned-at-out-of-order-stage', prop='C07', clause='D6', edits=[(PP_CPP, """        Token token;
        if( is_ordered ) {
            if( !info.my_token_ready ) {
                info.my_token = high_token++;
                info.my_token_ready = true;
            }
            token = info.my_token;
        } else
            token = high_token++;""", """        if( !is_ordered || !info.my_token_ready ) {
            info.my_token = high_token++;
            info.my_token_ready = true;
        }
        Token token = info.my_token;""")]),
    dict(name='c04-seed2-reset-clears-children-hint', prop='C04', clause='D2', edits=[(TGC_CPP, "        ctx.my_exception.store(nullptr, std::memory_order_relaxed);\n    }\n    ctx.my_cancellation_requested = 0;\n}", "        ctx.my_exception.store(nullptr, std::memory_order_relaxed);\n    }\n    ctx.my_cancellation_requested = 0;\n    ctx.my_may_have_children.store(0, std::memory_order_relaxed);\n}")]),
    dict(name='c20-seed-notify-before-recall-flag', prop='C20', clause='D3', edits=[('src/tbb/task.cpp', """        sp->recall_owner();
        // Do not access sp because it can be destroyed after recall

        auto is_our_suspend_point = [sp] (market_context ctx) {
            return std::uintptr_t(sp) == ctx.my_uniq_addr;
        };
        td->my_arena->get_waiting_threads_monitor().notify(is_our_suspend_point);""", """        auto is_our_suspend_point = [sp] (market_context ctx) {
            return std::uintptr_t(sp) == ctx.my_uniq_addr;
        };
        td->my_arena->get_waiting_threads_monitor().notify(is_our_suspend_point);
        sp->recall_owner();""")]),
    dict(name='c18-seed-null-tls-deref', prop='C18', clause='D2', edits=[(FE_CPP, "        if (ptrDelta && tls) { // !tls is cold path", "        if (ptrDelta) {")]),
    dict(name='c18-llocache-get-null-tls', prop='C18', clause='D2', edits=[(FE_CPP, """    if (tls) {
        tls->markUsed();
        lmb = tls->lloc.get(allocationSize);
    }""", """    tls->markUsed();
    lmb = tls->lloc.get(allocationSize);""")]),
    dict(name='c19-seed-waiter-leaves-on-uninitialized', prop='C19', clause='D1', edits=[(CO_H, "        } while (expected != state::done);", "        } while (expected > state::done);")]),
    dict(name='c15-seed-limiter-double-decrement', prop='C15', clause='D1', edits=[(FG_H, """                if( my_tries > 0 ) {
                    my_future_decrement += (size_t(delta) - my_count);
                    trim_future_decrement();
                }
                my_count = 0;""", """                my_count = 0;
                if( my_tries > 0 ) {
                    my_future_decrement += (size_t(delta) - my_count);
                    trim_future_decrement();
                }""")]),
    dict(name='c16-seed-execution-data-restored-conditionally', prop='C16', clause='D7', edits=[(AR_CPP, """            __TBB_ASSERT(td.my_inbox.is_idle_state(false), nullptr);
        }
        td.my_task_dispatcher->m_execute_data_ext = m_orig_execute_data_ext;""", """            __TBB_ASSERT(td.my_inbox.is_idle_state(false), nullptr);
            td.my_task_dispatcher->m_execute_data_ext = m_orig_execute_data_ext;
        }""")]),
    dict(name='c11-seed-stale-table-snapshot-in-wait', prop='C11', clause='D7', edits=[(CV_H, """        for (segment_index_type seg_idx = 0; seg_idx <= end_segment; ++seg_idx) {
            if (this->get_table()[seg_idx].load(std::memory_order_relaxed) == nullptr) {
                atomic_backoff backoff(true);
                while (this->get_table()[seg_idx].load(std::memory_order_relaxed) == nullptr) {""", """        segment_table_type table = this->get_table();
        for (segment_index_type seg_idx = 0; seg_idx <= end_segment; ++seg_idx) {
            if (table[seg_idx].load(std::memory_order_relaxed) == nullptr) {
                atomic_backoff backoff(true);
                while (table[seg_idx].load(std::memory_order_relaxed) == nullptr) {""")]),
    dict(name='c13-seed-sift-down-into-tail', prop='C13', clause='D4', edits=[(CPQ_H, """        while(child < mark) {
            size_type target = child;
            if (child + 1 < mark && my_compare(data[child], data[child + 1]))""", """        const size_type last = data.size() - 1;
        while(child < last) {
            size_type target = child;
            if (child + 1 < last && my_compare(data[child], data[child + 1]))""")]),
    dict(name='c13-sibling-beyond-mark', prop='C13', clause='D4', edits=[(CPQ_H, "            if (child + 1 < mark && my_compare(data[child], data[child + 1]))", "            if (child + 1 < data.size() && my_compare(data[child], data[child + 1]))")]),
    dict(name='c03-for-each-forward-reserve-before-block-task', prop='C03', clause='D9', edits=[(PFE_H, """        small_object_allocator alloc{};
        auto block_handling_task = alloc.new_object<block_handling_type>(ed, first_block_element, block_size,
                                                                         this->my_wait_context, this->my_execution_context,
                                                                         this->my_body, this->my_feeder_holder.feeder_ptr(), alloc);

        // Take the reference for the block task only when it exists (copying the user's iterator can throw),
        // it is released in finalize()
        this->my_wait_context.reserve();
""", """        this->my_wait_context.reserve();
        small_object_allocator alloc{};
        auto block_handling_task = alloc.new_object<block_handling_type>(ed, first_block_element, block_size,
                                                                         this->my_wait_context, this->my_execution_context,
                                                                         this->my_body, this->my_feeder_holder.feeder_ptr(), alloc);

""")]),
    dict(name='c03-for-each-input-unguarded-item-copy', prop='C03', clause='D9', edits=[(PFE_H, """        try_call( [&] {
            for (; !(this->my_first == this->my_last) && block_handling_task->my_size < block_handling_type::max_block_size; ++this->my_first) {
                // Move semantics are automatically used when supported by the iterator
                new (block_iterator++) Item(*this->my_first);
                ++block_handling_task->my_size;
            }
        } ).on_exception( [&] {
            alloc.delete_object(block_handling_task, ed);
        } );

        // Take the reference for the block task only when nothing can fail anymore, it is released in finalize()
        this->my_wait_context.reserve();
""", """        this->my_wait_context.reserve();
        for (; !(this->my_first == this->my_last) && block_handling_task->my_size < block_handling_type::max_block_size; ++this->my_first) {
            // Move semantics are automatically used when supported by the iterator
            new (block_iterator++) Item(*this->my_first);
            ++block_handling_task->my_size;
        }
""")]),
    dict(name='c07-seed-ring-one-slot-short', prop='C07', clause='D5', edits=[(PP_CPP, "                grow( token-low_token+1 );", "                grow( token-low_token );")]),
    dict(name='c07-ring-store-unguarded', prop='C07', clause='D5', edits=[(PP_CPP, "            if( token-low_token>=array_size )\n                grow( token-low_token+1 );", "            if( token-low_token>array_size )\n                grow( token-low_token+1 );")]),
    dict(name='c07-grow-does-not-reach-minimum', prop='C07', clause='D5', edits=[(PP_CPP, "    while( new_size<minimum_size )\n        new_size*=2;", "    if( new_size<minimum_size )\n        new_size*=2;")]),
    dict(name='c04-seed-snapshot-of-own-list', prop='C04', clause='D4', edits=[(TGC_CPP,
        "uintptr_t local_count_snapshot = ctx.my_parent->my_context_list->epoch.load(std::memory_order_acquire);",
        "uintptr_t local_count_snapshot = td->my_context_list->epoch.load(std::memory_order_acquire);")]),
    dict(name='c06-seed-det-reduce-overload-uses-start-reduce', prop='C06', clause='D6', edits=[(PR_H, """    start_deterministic_reduce<Range, lambda_reduce_body<Range, Value, RealBody, Reduction>, const simple_partitioner>
        ::run(range, body, partitioner, context);""", """    start_reduce<Range, lambda_reduce_body<Range, Value, RealBody, Reduction>, const simple_partitioner>
        ::run(range, body, partitioner, context);""")]),
    dict(name='c05-index-overload-drops-context', prop='C05', clause='D5', edits=[(PF_H, "        parallel_for(range, body, partitioner, context);", "        parallel_for(range, body, partitioner);")]),
    dict(name='c14-input-node-get-ignores-reservation', prop='C14', clause='D6', edits=[(FG_H, """        spin_mutex::scoped_lock lock(my_mutex);
        if ( my_reserved )
            return false;

        if ( my_has_cached_item ) {
            v = my_cached_item;
            my_has_cached_item = false;""", """        spin_mutex::scoped_lock lock(my_mutex);

        if ( my_has_cached_item ) {
            v = my_cached_item;
            my_has_cached_item = false;""")]),
    dict(name='c01-unsigned-arbitration', prop='C01', clause='D1', edits=[(AS_CPP,
        "if ( (std::intptr_t)( head.load(std::memory_order_acquire) ) > (std::intptr_t)T ) {",
        "if ( head.load(std::memory_order_acquire) > T ) {")]),
    dict(name='c01-unsigned-steal-arbitration', prop='C01', clause='D1', edits=[(AS_CPP,
        "if ((std::intptr_t)H > (std::intptr_t)(tail.load(std::memory_order_acquire))) {",
        "if (H > tail.load(std::memory_order_acquire)) {")]),
    dict(name='c12-seed-double-destroy-loser', prop='C12', clause='D4', edits=[(CUB_H, """        auto insert_result = internal_insert(insert_node->value(), init_node);

        if (!insert_result.inserted) {
            // If the insertion failed - destroy the node which was created
""", """        auto insert_result = internal_insert(insert_node->value(), init_node);

        if (insert_result.remaining_node != nullptr) {
            destroy_node(insert_result.remaining_node);
        }

        if (!insert_result.inserted) {
            // If the insertion failed - destroy the node which was created
""")]),
    dict(name='c02-seed-conditional-wakeup-forward', prop='C02', clause='D4', edits=[
        (AR_CPP, "            size_t index2 = arena::out_of_arena;\n", "            size_t index2 = arena::out_of_arena;\n            bool was_woken = false;\n"),
        (AR_CPP, "                a->my_exit_monitors.commit_wait(waiter);\n", "                was_woken |= a->my_exit_monitors.commit_wait(waiter);\n"),
        (AR_CPP, "            if (index2 == arena::out_of_arena) {\n", "            if (index2 == arena::out_of_arena && was_woken) {\n")]),
    dict(name='c03-seed-reparent-before-child', prop='C03', clause='D8', edits=[(PF_H, """        start_for& right_child = *alloc.new_object<start_for>(ed, std::forward<Args>(constructor_args)..., alloc);

        // New root node as a continuation and ref count. Left and right child attach to the new parent.
        right_child.my_parent = my_parent = alloc.new_object<tree_node>(ed, my_parent, 2, alloc);
""", """        my_parent = alloc.new_object<tree_node>(ed, my_parent, 2, alloc);
        start_for& right_child = *alloc.new_object<start_for>(ed, std::forward<Args>(constructor_args)..., alloc);
        right_child.my_parent = my_parent;
""")]),
    dict(name='c03-reduce-reparent-before-child', prop='C03', clause='D8', edits=[(PR_H, """        auto right_child = alloc.new_object<start_deterministic_reduce>(ed, std::forward<Args>(args)..., new_tree_node->right_body, alloc);

        right_child->my_parent = my_parent = new_tree_node;
""", """        my_parent = new_tree_node;
        auto right_child = alloc.new_object<start_deterministic_reduce>(ed, std::forward<Args>(args)..., new_tree_node->right_body, alloc);

        right_child->my_parent = new_tree_node;
""")]),
    dict(name='c14-seed-forwarder-ignores-reservation', prop='C14', clause='D6', edits=[
        (FG_H, "        if (this->my_reserved || !derived->is_item_valid()) {", "        if (!derived->is_item_valid()) {"),
        (FG_H, "    bool is_item_valid() {\n        return this->my_item_valid(this->my_tail - 1);", "    bool is_item_valid() {\n        return !this->my_reserved && this->my_item_valid(this->my_tail - 1);"),
        (FG_H, "    bool is_item_valid() {\n        return this->my_tail > 0;", "    bool is_item_valid() {\n        return !this->my_reserved && this->my_tail > 0;")]),
    dict(name='c14-buffer-pop-ignores-reservation', prop='C14', clause='D6', edits=[(FG_H, "        if (this->my_reserved && this->size() == 1) {", "        if (this->size() == 0) {")]),
    dict(name='c14-queue-pop-ignores-reservation', prop='C14', clause='D6', edits=[(FG_H, """    void internal_pop(queue_operation *op) override {
        if ( this->my_reserved || !this->my_item_valid(this->my_head)){""", """    void internal_pop(queue_operation *op) override {
        if ( !this->my_item_valid(this->my_head)){""")]),
    dict(name='c14-double-reservation', prop='C14', clause='D6', edits=[(IB_H, "        if(my_reserved || !my_item_valid(this->my_head)) return false;", "        if(!my_item_valid(this->my_head)) return false;")]),
    dict(name='c17-seed-shift-large-object', prop='C17', clause='D4', edits=[(FE_CPP, "else if (size+alignment < minLargeObjectSize) {", "else if (size+alignment <= minLargeObjectSize) {")]),
    dict(name='c17-shift-unguarded', prop='C17', clause='D4', edits=[(FE_CPP, "else if (size+alignment < minLargeObjectSize) {", "else if (alignment < minLargeObjectSize) {")]),
    dict(name='c09-seed-unsigned-full-check', prop='C09', clause='D7', edits=[(CQ_H,
        "if (static_cast<std::ptrdiff_t>(ticket - my_queue_representation->head_counter.load(std::memory_order_relaxed)) >= my_capacity) {",
        "if (ticket - my_queue_representation->head_counter.load(std::memory_order_relaxed) >= static_cast<ticket_type>(my_capacity)) {")]),
    dict(name='c09-unsigned-empty-check', prop='C09', clause='D7', edits=[(CQ_H,
        "if (static_cast<std::ptrdiff_t>(queue.tail_counter.load(std::memory_order_relaxed) - ticket) <= 0) { // queue is empty",
        "if ((queue.tail_counter.load(std::memory_order_relaxed) - ticket) <= 0) { // queue is empty")]),
    dict(name='c01-seed-republish-taken-slot', prop='C01', clause='D3', edits=[(AS_CPP, """            if ( result ) {
                // If we have a task, it should be at H0 position.
                __TBB_ASSERT( H0 == T, nullptr );
                ++H0;
            }
""", """            __TBB_ASSERT( !result || H0 == T, nullptr );
""")]),
    dict(name='c01-steal-no-hole', prop='C01', clause='D3', edits=[(AS_CPP, "        victim_pool[H-1] = nullptr;\n", "")]),
    dict(name='c01-get-no-hole', prop='C01', clause='D3', edits=[(AS_CPP, "            task_pool_ptr[T] = nullptr;\n            tail.store(T0, std::memory_order_release);", "            tail.store(T0, std::memory_order_release);")]),
    # ---------------------------------------------------------------- C01
    dict(name='c01-get_task-no-fence', prop='C01', clause='D1', edits=[
        (AS_CPP, "        T = --tail;\n",
         "        T = tail.load(std::memory_order_relaxed) - 1; tail.store(T, std::memory_order_relaxed);\n")]),
    dict(name='c01-steal-head-acqrel', prop='C01', clause='D1', edits=[
        (AS_CPP, "        H = ++head;\n", "        H = head.fetch_add(1, std::memory_order_acq_rel) + 1;\n")]),
    dict(name='c01-steal-tail-relaxed', prop='C01', clause='D1', edits=[
        (AS_CPP, "(std::intptr_t)(tail.load(std::memory_order_acquire))", "(std::intptr_t)(tail.load(std::memory_order_relaxed))")]),
    dict(name='c01-steal-no-unlock', prop='C01', clause='D2', edits=[
        (AS_CPP, "            __TBB_ASSERT( !result, nullptr );\n            goto unlock;\n",
         "            __TBB_ASSERT( !result, nullptr );\n            return nullptr;\n")]),
    dict(name='c01-get_task-no-release', prop='C01', clause='D2', edits=[
        (AS_CPP, "                release_task_pool();\n            }\n        }\n        result = get_task_impl",
         "            }\n        }\n        result = get_task_impl")]),
    dict(name='c01-lock-by-store', prop='C01', clause='D2', edits=[
        (AS_H, "if (victim_task_pool != LockedTaskPool && task_pool.compare_exchange_strong(expected, LockedTaskPool) ) {",
         "if (victim_task_pool != LockedTaskPool && (task_pool.store(LockedTaskPool), true) ) {")]),
    dict(name='c01-unlock-relaxed', prop='C01', clause='D2', edits=[
        (AS_H, "        task_pool.store(victim_task_pool, std::memory_order_release);",
         "        task_pool.store(victim_task_pool, std::memory_order_relaxed);")]),
    dict(name='c01-start_for-cancel-no-finalize', prop='C01', clause='D7', edits=[
        (PF_H, "    finalize(ed);\n    return nullptr;\n}\n\n//! Calls the function with values from range [begin, end) with a step provided",
         "    (void)ed;\n    return nullptr;\n}\n\n//! Calls the function with values from range [begin, end) with a step provided")]),
    dict(name='c01-tree-refcount-1', prop='C01', clause='D8', edits=[
        (PF_H, "alloc.new_object<tree_node>(ed, my_parent, 2, alloc);", "alloc.new_object<tree_node>(ed, my_parent, 1, alloc);")]),
    dict(name='c01-spawn-before-mail', prop='C01', clause='D4', edits=[
        (TD_CPP, "        proxy->outbox->push(proxy);\n        // Spawn proxy to the local task pool\n        spawn_and_notify(*proxy, slot, a);",
         "        spawn_and_notify(*proxy, slot, a);\n        proxy->outbox->push(proxy);")]),
    dict(name='c01-extract-by-store', prop='C01', clause='D4', edits=[
        (MB_H, "            if ( task_and_tag.compare_exchange_strong(tat, cleaner_bit) ) {",
         "            if ( (task_and_tag.store(cleaner_bit), true) ) {")]),
    dict(name='c01-extract-free-on-success', prop='C01', clause='D4', edits=[
        (AS_CPP, "        ed.affinity_slot = aff_id;\n        return t;",
         "        ed.affinity_slot = aff_id;\n        tp.allocator.delete_object(&tp, ed);\n        return t;")]),
    dict(name='c01-mailbox-link-relaxed', prop='C01', clause='D4', edits=[
        (MB_H, "        link->store(t, std::memory_order_release);", "        link->store(t, std::memory_order_relaxed);")]),
    dict(name='c01-stream-push-unlocked', prop='C01', clause='D5', edits=[
        ('src/tbb/task_stream.h', "        if( lock.try_acquire( lanes[lane_idx].my_mutex ) ) {\n            lanes[lane_idx].my_queue.push_back( source );",
         "        if( lock.try_acquire( lanes[lane_idx].my_mutex ) ) {\n            lock.release();\n            lanes[lane_idx].my_queue.push_back( source );")]),
    dict(name='c01-stream-clear-always', prop='C01', clause='D5', edits=[
        ('src/tbb/task_stream.h', "            result = this->get_item( lane.my_queue );\n            if( lane.my_queue.empty() )\n                clear_one_bit( population, lane_idx );",
         "            result = this->get_item( lane.my_queue );\n            clear_one_bit( population, lane_idx );")]),
    dict(name='c01-wait-notify-nonzero', prop='C01', clause='D6', edits=[
        ('include/oneapi/tbb/detail/_task.h', "        if (!r) {\n            // Some external waiters", "        if (r) {\n            // Some external waiters")]),
    dict(name='c01-vertex-release-always-parent', prop='C01', clause='D6', edits=[
        ('include/oneapi/tbb/detail/_task.h', "        if (ref == 0) {\n            parent->release();\n        }", "        (void)ref;\n        parent->release();\n")]),
    dict(name='c01-wait-before-loop', prop='C01', clause='D9', edits=[
        (TD_CPP, "    external_waiter waiter{ *tls->my_arena, wait_ctx };\n    t = local_td.local_wait_for_all(t, waiter);",
         "    external_waiter waiter{ *tls->my_arena, wait_ctx };\n    if (t || wait_ctx.continue_execution()) t = local_td.local_wait_for_all(t, waiter);")]),
    dict(name='c01-function_task-exec-no-finalize', prop='C01', clause='D7', edits=[
        ('include/oneapi/tbb/task_group.h', "        task* res = task_ptr_or_nullptr(m_func);\n        finalize(&ed);\n        return res;",
         "        task* res = task_ptr_or_nullptr(m_func);\n        (void)ed;\n        return res;")]),
    dict(name='c01-invoker-cancel-no-release', prop='C01', clause='D7', edits=[
        ('include/oneapi/tbb/parallel_invoke.h', "    task* cancel(execution_data& ed) override {\n        parent_wait_ctx.release(ed);\n        return nullptr;\n    }\n\n    const Function& my_function;",
         "    task* cancel(execution_data& ed) override {\n        (void)ed;\n        return nullptr;\n    }\n\n    const Function& my_function;")]),

    dict(name='c01-pool-private-by-foreign', prop='C01', clause='D10', edits=[
        ('src/tbb/small_object_pool.cpp', "        if (td.my_small_object_pool == this) {\n            obj->next = m_private_list;", "        if (td.my_small_object_pool == this || m_public_counter.load(std::memory_order_relaxed) == 0) {\n            obj->next = m_private_list;")]),
    dict(name='c01-pool-public-stale-link', prop='C01', clause='D10', edits=[
        ('src/tbb/small_object_pool.cpp', "                obj->next = old_public_list;\n                if (m_public_list.compare_exchange_strong(old_public_list, obj)) {", "                if (!obj->next) obj->next = old_public_list;\n                if (m_public_list.compare_exchange_strong(old_public_list, obj)) {")]),
    dict(name='c01-seed5-reserved-slot-not-published', prop='C01', clause='D11', edits=[('src/tbb/arena.cpp', '    if ( index == out_of_arena ) {\n        // Secondly, all threads try to occupy all non-reserved slots\n        index = occupy_free_slot_in_range(tls, my_num_reserved_slots, my_num_slots );\n        // Likely this arena is already saturated\n        if ( index == out_of_arena )\n            return out_of_arena;\n    }\n\n    atomic_update( my_limit, (unsigned)(index + 1), std::less<unsigned>() );\n    return index;\n', '    if ( index != out_of_arena )\n        return index;\n\n    // Secondly, all threads try to occupy all non-reserved slots\n    index = occupy_free_slot_in_range(tls, my_num_reserved_slots, my_num_slots );\n    if ( index != out_of_arena )\n        atomic_update( my_limit, (unsigned)(index + 1), std::less<unsigned>() );\n    return index;\n')]),
    dict(name='c01-limit-raised-only-for-worker-slots', prop='C01', clause='D11', edits=[('src/tbb/arena.cpp', '    if ( index == out_of_arena ) {\n        // Secondly, all threads try to occupy all non-reserved slots\n        index = occupy_free_slot_in_range(tls, my_num_reserved_slots, my_num_slots );\n        // Likely this arena is already saturated\n        if ( index == out_of_arena )\n            return out_of_arena;\n    }\n\n    atomic_update( my_limit, (unsigned)(index + 1), std::less<unsigned>() );\n    return index;\n', '    if ( index == out_of_arena ) {\n        // Secondly, all threads try to occupy all non-reserved slots\n        index = occupy_free_slot_in_range(tls, my_num_reserved_slots, my_num_slots );\n        // Likely this arena is already saturated\n        if ( index == out_of_arena )\n            return out_of_arena;\n    }\n\n    if ( index >= my_num_reserved_slots )\n        atomic_update( my_limit, (unsigned)(index + 1), std::less<unsigned>() );\n    return index;\n')]),
    # ---------------------------------------------------------------- C02
    dict(name='c02-prepare_wait-no-fence', prop='C02', clause='D1', edits=[
        (CM_H, "        // Prepare wait guarantees Write Read memory barrier.\n        // In C++ only full fence covers this type of barrier.\n        atomic_fence_seq_cst();\n", "")]),
    dict(name='c02-notify-no-fence', prop='C02', clause='D1', edits=[
        (CM_H, "    void notify( const P& predicate ) {\n        atomic_fence_seq_cst();\n", "    void notify( const P& predicate ) {\n")]),
    dict(name='c02-epoch-outside-lock', prop='C02', clause='D1', edits=[
        (CM_H, """        base_node* n;
        const base_node* end = my_waitset.end();
        {
            concurrent_monitor_mutex::scoped_lock l(my_mutex);
            my_epoch.store(my_epoch.load(std::memory_order_relaxed) + 1, std::memory_order_relaxed);""",
         """        base_node* n;
        const base_node* end = my_waitset.end();
        my_epoch.store(my_epoch.load(std::memory_order_relaxed) + 1, std::memory_order_relaxed);
        {
            concurrent_monitor_mutex::scoped_lock l(my_mutex);""")]),
    dict(name='c02-commit-always-sleep', prop='C02', clause='D1', edits=[
        (CM_H, "        if (do_it) {\n           node.wait();\n        } else {\n            cancel_wait( node );\n        }",
         "        node.wait();")]),
    dict(name='c02-monmutex-unlock-release-store', prop='C02', clause='D1', edits=[
        ('src/tbb/concurrent_monitor_mutex.h', "        my_flag.exchange(0); // full fence, so the next load is relaxed",
         "        my_flag.store(0, std::memory_order_release);")]),
    dict(name='c02-sema-V-wake-on-1', prop='C02', clause='D1', edits=[
        ('src/tbb/semaphore.h', "        if( my_sem.exchange( 0 )==2 )\n            futex_wakeup_one( &my_sem );",
         "        if( my_sem.exchange( 0 )==1 )\n            futex_wakeup_one( &my_sem );")]),
    dict(name='c02-execute-drop-cancel_wait', prop='C02', clause='D2', edits=[
        ('src/tbb/arena.cpp', "                if (!wo.continue_execution()) {\n                    a->my_exit_monitors.cancel_wait(waiter);\n                    break;",
         "                if (!wo.continue_execution()) {\n                    break;")]),
    dict(name='c02-mutex-unlock-store', prop='C02', clause='D3', edits=[
        ('include/oneapi/tbb/detail/_waitable_atomic.h', "    T exchange(T desired) noexcept {\n        return my_atomic.exchange(desired);",
         "    T exchange(T desired) noexcept {\n        T o = my_atomic.load(std::memory_order_relaxed); my_atomic.store(desired, std::memory_order_release); return o;")]),
    dict(name='c02-rw-unlock-acqrel', prop='C02', clause='D3', edits=[
        ('include/oneapi/tbb/rw_mutex.h', "        state_type curr_state = (m_state &= READERS | WRITER_PENDING); // Returns current state",
         "        state_type curr_state = m_state.fetch_and(READERS | WRITER_PENDING, std::memory_order_acq_rel) & (READERS | WRITER_PENDING);")]),
    dict(name='c02-rw-unlock_shared-one-branch', prop='C02', clause='D4', edits=[
        ('include/oneapi/tbb/rw_mutex.h', """        if (curr_state & (WRITER_PENDING)) {
            r1::notify_by_address(this, WRITER_CONTEXT);
        } else {
            // It's possible that WRITER sleeps without WRITER_PENDING,
            // because other thread might clear this bit at upgrade()
            r1::notify_by_address_all(this);
        }""", """        if (curr_state & (WRITER_PENDING)) {
            r1::notify_by_address(this, WRITER_CONTEXT);
        }""")]),
    dict(name='c02-cbq-push-wrong-tag', prop='C02', clause='D5', edits=[
        (CQ_H, "        my_queue_representation->choose(ticket).push(ticket, *my_queue_representation, my_allocator, std::forward<Args>(args)...);\n        r1::notify_bounded_queue_monitor(my_monitors, cbq_items_avail_tag, ticket);\n    }\n\n    template <typename... Args>\n    bool internal_push_if_not_full",
         "        my_queue_representation->choose(ticket).push(ticket, *my_queue_representation, my_allocator, std::forward<Args>(args)...);\n        r1::notify_bounded_queue_monitor(my_monitors, cbq_slots_avail_tag, ticket);\n    }\n\n    template <typename... Args>\n    bool internal_push_if_not_full")]),
    dict(name='c02-cbq-trypop-no-notify', prop='C02', clause='D4', edits=[
        (CQ_H, "        if (present) {\n            r1::notify_bounded_queue_monitor(my_monitors, cbq_slots_avail_tag, ticket);\n        }\n        return present;",
         "        (void)ticket;\n        return present;")]),
    dict(name='c02-abort-counter-after', prop='C02', clause='D5', edits=[
        (CQ_H, "        ++my_abort_counter;\n        r1::abort_bounded_queue_monitors(my_monitors);", "        r1::abort_bounded_queue_monitors(my_monitors);\n        ++my_abort_counter;")]),
    dict(name='c02-enqueue-advertise-first', prop='C02', clause='D6', edits=[
        ('src/tbb/arena.cpp', "    my_fifo_task_stream.push( &t, random_lane_selector(td.my_random) );\n    advertise_new_work<work_enqueued>();",
         "    advertise_new_work<work_enqueued>();\n    my_fifo_task_stream.push( &t, random_lane_selector(td.my_random) );")]),
    dict(name='c02-advertise-no-fence', prop='C02', clause='D6', edits=[
        ('src/tbb/arena.h', "    if (work_type != work_spawned) {\n        // Local memory fence here and below is required to avoid missed wakeups; see the comment below.\n        // Starvation resistant tasks require concurrency, so missed wakeups are unacceptable.\n        atomic_fence_seq_cst();\n    }",
         "")]),
    dict(name='c02-has_tasks-skip-resume', prop='C02', clause='D6', edits=[
        ('src/tbb/arena.cpp', "    tasks_are_available = tasks_are_available || has_enqueued_tasks() || !my_resume_task_stream.empty();",
         "    tasks_are_available = tasks_are_available || has_enqueued_tasks();")]),
    dict(name='c02-asleep-insert-unlocked', prop='C02', clause='D7', edits=[
        ('src/tbb/private_server.cpp', "    asleep_list_mutex_type::scoped_lock lock;\n    if( !lock.try_acquire(my_asleep_list_mutex) )\n        return false;",
         "    { asleep_list_mutex_type::scoped_lock lock;\n    if( !lock.try_acquire(my_asleep_list_mutex) )\n        return false; }")]),
    dict(name='c02-delegated-notify-before-release', prop='C02', clause='D4', edits=[
        ('src/tbb/arena.cpp', "        m_wait_ctx.release(); // must precede the wakeup\n        m_monitor.notify([this] (std::uintptr_t ctx) {\n            return ctx == std::uintptr_t(&m_delegate);\n        }); // do not relax, it needs a fence!",
         "        m_monitor.notify([this] (std::uintptr_t ctx) {\n            return ctx == std::uintptr_t(&m_delegate);\n        }); // do not relax, it needs a fence!\n        m_wait_ctx.release(); // must precede the wakeup")]),

    dict(name='c02-shutdown-notify-before-quit', prop='C02', clause='D7', edits=[
        ('src/tbb/private_server.cpp', "    state_t prev_state = my_state.exchange(st_quit, std::memory_order_acq_rel);\n", "    my_thread_monitor.notify();\n    state_t prev_state = my_state.exchange(st_quit, std::memory_order_acq_rel);\n")]),
    dict(name='c02-worker-state-store', prop='C02', clause='D7', edits=[
        ('src/tbb/private_server.cpp', "            if (!my_state.compare_exchange_strong(state, st_normal)) {", "            if (my_state.load() != state || (my_state.store(st_normal), false)) {")]),
    dict(name='c02-seed6-soft-limit-zero-decided-by-the-mode-flag', prop='C02', clause='D7', edits=[('src/tbb/thread_request_serializer.cpp', '    } else if (my_num_mandatory_requests > 0) {\n        my_is_mandatory_concurrency_enabled = true;\n        soft_limit = 1;\n    }\n', '    } else if (my_is_mandatory_concurrency_enabled) {\n        // Mandatory concurrency is on: keep the worker it is entitled to\n        soft_limit = 1;\n    }\n')]),
    dict(name='c02-soft-limit-zero-does-not-ask-for-the-mandatory-worker', prop='C02', clause='D7', edits=[('src/tbb/thread_request_serializer.cpp', '    } else if (my_num_mandatory_requests > 0) {\n        my_is_mandatory_concurrency_enabled = true;\n        soft_limit = 1;\n    }\n', '    } else if (my_num_mandatory_requests > 0) {\n        my_is_mandatory_concurrency_enabled = true;\n    }\n')]),
    # ---------------------------------------------------------------- C03
    dict(name='c03-store-unconditional', prop='C03', clause='D1', edits=[
        (TDH, "            if (ed.context->cancel_group_execution()) {\n                /* We are the first to signal cancellation, so store the exception that caused it. */\n                ed.context->my_exception.store(tbb_exception_ptr::allocate(), std::memory_order_release);\n            }",
         "            ed.context->cancel_group_execution();\n            ed.context->my_exception.store(tbb_exception_ptr::allocate(), std::memory_order_release);")]),
    dict(name='c03-store-relaxed', prop='C03', clause='D1', edits=[
        (TDH, "ed.context->my_exception.store(tbb_exception_ptr::allocate(), std::memory_order_release);",
         "ed.context->my_exception.store(tbb_exception_ptr::allocate(), std::memory_order_relaxed);")]),
    dict(name='c03-handler-returns', prop='C03', clause='D1', edits=[
        (TDH, "                ed.context->my_exception.store(tbb_exception_ptr::allocate(), std::memory_order_release);\n            }\n        }",
         "                ed.context->my_exception.store(tbb_exception_ptr::allocate(), std::memory_order_release);\n            }\n            return nullptr;\n        }")]),
    dict(name='c03-cancel-execute-swapped', prop='C03', clause='D1', edits=[
        (TDH, "                    if (ed.context->is_group_execution_cancelled()) {\n                        t = t->cancel(ed);\n                    } else {\n                        t = t->execute(ed);\n                    }",
         "                    if (!ed.context->is_group_execution_cancelled()) {\n                        t = t->cancel(ed);\n                    } else {\n                        t = t->execute(ed);\n                    }")]),
    dict(name='c03-rethrow-before-wait', prop='C03', clause='D2', edits=[
        (TD_CPP, "    // Waiting on special object tied to a waiting thread.\n    external_waiter waiter{ *tls->my_arena, wait_ctx };\n    t = local_td.local_wait_for_all(t, waiter);",
         "    if (auto e0 = w_ctx.my_exception.load(std::memory_order_acquire)) e0->throw_self();\n    external_waiter waiter{ *tls->my_arena, wait_ctx };\n    t = local_td.local_wait_for_all(t, waiter);")]),
    dict(name='c03-exception-load-relaxed', prop='C03', clause='D2', edits=[
        (TD_CPP, "    auto exception = w_ctx.my_exception.load(std::memory_order_acquire);", "    auto exception = w_ctx.my_exception.load(std::memory_order_relaxed);")]),
    dict(name='c03-join-when-cancelled', prop='C03', clause='D4', edits=[
        (PR_H, "        if (has_right_zombie && !context->is_group_execution_cancelled())", "        (void)context; if (has_right_zombie)")]),
    dict(name='c03-det-join-when-cancelled', prop='C03', clause='D4', edits=[
        (PR_H, "        if (!context->is_group_execution_cancelled())\n            left_body.join(right_body);", "        (void)context;\n            left_body.join(right_body);")]),
    dict(name='c03-tg-wait-on_exception', prop='C03', clause='D5', edits=[
        (TG_H, "            d1::wait(m_wait_vertex.get_context(), context());\n        }).on_completion([&] {", "            d1::wait(m_wait_vertex.get_context(), context());\n        }).on_exception([&] {")]),
    dict(name='c03-graph-no-reset-in-handler', prop='C03', clause='D5', edits=[
        ('include/oneapi/tbb/detail/_flow_graph_impl.h', "        }).on_exception([this] {\n            my_context->reset();\n            caught_exception = true;", "        }).on_exception([this] {\n            caught_exception = false;")]),
    dict(name='c03-start_reduce-cancel-leak', prop='C03', clause='D3', edits=[
        (PR_H, "task* start_reduce<Range, Body, Partitioner>::cancel(execution_data& ed) {\n    finalize(ed);\n    return nullptr;",
         "task* start_reduce<Range, Body, Partitioner>::cancel(execution_data& ed) {\n    node* parent = my_parent; this->~start_reduce(); fold_tree<tree_node_type>(parent, ed);\n    return nullptr;")]),
    dict(name='c03-worker-run-not-noexcept', prop='C03', clause='D6', edits=[
        ('src/tbb/private_server.cpp', "void private_worker::run() noexcept {", "void private_worker::run() {"),
        ('src/tbb/private_server.cpp', "    void run() noexcept;", "    void run();")]),
    dict(name='c03-delegate-skip-finalize', prop='C03', clause='D7', edits=[
        ('src/tbb/arena.cpp', "            ed_ext.task_disp->allow_fifo_task(fifo_task_allowed);\n        });\n\n        finalize();\n        return nullptr;",
         "            ed_ext.task_disp->allow_fifo_task(fifo_task_allowed);\n        });\n\n        if (fifo_task_allowed) finalize();\n        return nullptr;")]),
    dict(name='c03-zombie-flag-missing', prop='C03', clause='D4', edits=[
        (PR_H, "        parent_ptr->has_right_zombie = true;", "        ")]),
    dict(name='c03-seed6-ancestor-climb-stops-at-a-painted-ancestor', prop='C03', clause='D2', edits=[('src/tbb/task_group_context.cpp', '                    (c->*mptr_state).store(new_state, std::memory_order_relaxed);\n                break;\n            }\n        }\n', '                    (c->*mptr_state).store(new_state, std::memory_order_relaxed);\n                break;\n            }\n            // An ancestor that is already in the new state has had its own subtree taken care of\n            if ((ancestor->*mptr_state).load(std::memory_order_relaxed) == new_state)\n                break;\n        }\n')]),
    dict(name='c03-destructor-wait-unguarded-during-unwinding', prop='C03', clause='D2', edits=[('include/oneapi/tbb/task_group.h', '#if TBB_USE_EXCEPTIONS\n                try\n#endif\n                {\n                    d1::wait(m_wait_vertex.get_context(), context());\n                }\n#if TBB_USE_EXCEPTIONS\n                catch (...) {}\n#endif\n', '                d1::wait(m_wait_vertex.get_context(), context());\n')]),
    dict(name='c03-destructor-wait-handler-rethrows', prop='C03', clause='D2', edits=[('include/oneapi/tbb/task_group.h', '#if TBB_USE_EXCEPTIONS\n                try\n#endif\n                {\n                    d1::wait(m_wait_vertex.get_context(), context());\n                }\n#if TBB_USE_EXCEPTIONS\n                catch (...) {}\n#endif\n', '#if TBB_USE_EXCEPTIONS\n                try\n#endif\n                {\n                    d1::wait(m_wait_vertex.get_context(), context());\n                }\n#if TBB_USE_EXCEPTIONS\n                catch (...) { throw; }\n#endif\n')]),
    # ---------------------------------------------------------------- C04
    dict(name='c04-cancel-load-store', prop='C04', clause='D1', edits=[
        (TGC_CPP, "if (ctx.my_cancellation_requested.load(std::memory_order_relaxed) || ctx.my_cancellation_requested.exchange(1)) {",
         "if (ctx.my_cancellation_requested.load(std::memory_order_relaxed) || (ctx.my_cancellation_requested.store(1), false)) {")]),
    dict(name='c04-cancel-always-true', prop='C04', clause='D1', edits=[
        (TGC_CPP, "        // not missing out on any cancellation still being propagated, and a context cannot be uncanceled.)\n        return false;",
         "        // not missing out on any cancellation still being propagated, and a context cannot be uncanceled.)\n        return true;")]),
    dict(name='c04-register-before-snapshot', prop='C04', clause='D4', edits=[
        (TGC_CPP, "        uintptr_t local_count_snapshot = ctx.my_parent->my_context_list->epoch.load(std::memory_order_acquire);",
         "        register_with(ctx, td);\n        uintptr_t local_count_snapshot = ctx.my_parent->my_context_list->epoch.load(std::memory_order_acquire);"),
        (TGC_CPP, "        register_with(ctx, td); // Issues full fence\n\n        // If no state propagation was detected by the following condition, the above", "\n        // If no state propagation was detected by the following condition, the above")]),
    dict(name='c04-snapshot-relaxed', prop='C04', clause='D4', edits=[
        (TGC_CPP, "ctx.my_parent->my_context_list->epoch.load(std::memory_order_acquire);", "ctx.my_parent->my_context_list->epoch.load(std::memory_order_relaxed);")]),
    dict(name='c04-recopy-unlocked', prop='C04', clause='D4', edits=[
        (TGC_CPP, "            context_state_propagation_mutex_type::scoped_lock lock(the_context_state_propagation_mutex);\n", "")]),
    dict(name='c04-propagate-no-ancestor-test', prop='C04', clause='D2', edits=[
        (TGC_CPP, "            if (ancestor == &src) {\n                for (d1::task_group_context* c = &ctx; c != ancestor; c = c->my_parent)\n                    (c->*mptr_state).store(new_state, std::memory_order_relaxed);\n                break;\n            }",
         "            {\n                for (d1::task_group_context* c = &ctx; c != ancestor; c = c->my_parent)\n                    (c->*mptr_state).store(new_state, std::memory_order_relaxed);\n                break;\n            }")]),
    dict(name='c04-epoch-after-walk', prop='C04', clause='D3', edits=[
        (CD_H, "        ++the_context_state_propagation_epoch;\n", ""),
        (CD_H, "            thr_data.propagate_task_group_state(mptr_state, src, new_state);\n        }\n", "            thr_data.propagate_task_group_state(mptr_state, src, new_state);\n        }\n        ++the_context_state_propagation_epoch;\n")]),
    dict(name='c04-list-epoch-before-walk', prop='C04', clause='D3', edits=[
        ('src/tbb/thread_data.h', "    mutex::scoped_lock lock(my_context_list->m_mutex);\n    // Acquire fence is necessary",
         "    mutex::scoped_lock lock(my_context_list->m_mutex);\n    my_context_list->epoch.store(the_context_state_propagation_epoch.load(std::memory_order_relaxed), std::memory_order_release);\n    // Acquire fence is necessary"),
        ('src/tbb/thread_data.h', "    // reordering of possible store to *mptr_state after the sync point.\n    my_context_list->epoch.store(the_context_state_propagation_epoch.load(std::memory_order_relaxed), std::memory_order_release);",
         "    // reordering of possible store to *mptr_state after the sync point.")]),
    dict(name='c04-bind-without-cas', prop='C04', clause='D5', edits=[
        (TGC_CPP, "            ctx.my_state.compare_exchange_strong(state, d1::task_group_context::state::locked)\n#endif",
         "            (ctx.my_state.store(d1::task_group_context::state::locked), true)\n#endif")]),
    dict(name='c04-bind-isolated', prop='C04', clause='D5', edits=[
        (TGC_CPP, "if (td->my_task_dispatcher->m_execute_data_ext.context == td->my_arena->my_default_ctx || !ctx.my_traits.bound) {",
         "if (td->my_task_dispatcher->m_execute_data_ext.context == td->my_arena->my_default_ctx) {")]),
    dict(name='c04-propagation-lock-dropped', prop='C04', clause='D4', edits=[
        (CD_H, "        context_state_propagation_mutex_type::scoped_lock propagation_lock(the_context_state_propagation_mutex);\n", "")]),
    dict(name='c04-children-hint-without-fence', prop='C04', clause='D4', edits=[
        (TGC_CPP, "        atomic_fence_seq_cst();\n    }\n    if (ctx.my_parent->my_parent) {", "    }\n    if (ctx.my_parent->my_parent) {")]),
    dict(name='c04-fence-after-speculative-copy', prop='C04', clause='D4', edits=[
        (TGC_CPP, "        atomic_fence_seq_cst();\n    }\n    if (ctx.my_parent->my_parent) {", "    }\n    if (ctx.my_parent->my_parent) {"),
        (TGC_CPP, "        register_with(ctx, td); // Issues full fence\n\n", "        atomic_fence_seq_cst();\n        register_with(ctx, td); // Issues full fence\n\n")]),
    dict(name='c04-binding-overwrites-requested-cancellation', prop='C04', clause='D2', edits=[
        (TGC_CPP, """        if (std::uint32_t parent_state = ctx.my_parent->my_cancellation_requested.load(std::memory_order_relaxed)) {
            ctx.my_cancellation_requested.store(parent_state, std::memory_order_relaxed);
        }
    }
}""", """        ctx.my_cancellation_requested.store(ctx.my_parent->my_cancellation_requested.load(std::memory_order_relaxed), std::memory_order_relaxed);
    }
}""")]),
    dict(name='c04-reset-elsewhere', prop='C04', clause='D2', edits=[
        (TGC_CPP, "bool task_group_context_impl::is_group_execution_cancelled(const d1::task_group_context& ctx) {\n",
         "bool task_group_context_impl::is_group_execution_cancelled(const d1::task_group_context& ctx) {\n    if (ctx.my_parent && !ctx.my_parent->my_cancellation_requested.load(std::memory_order_relaxed)) const_cast<d1::task_group_context&>(ctx).my_cancellation_requested.store(0, std::memory_order_relaxed);\n")]),
    dict(name='c03-seed3-filter-input-destroyed-by-guard', prop='C03', clause='D10', edits=[('include/oneapi/tbb/detail/_pipeline_filters.h',
        """        tbb::detail::invoke(my_body, std::move(input_helper::token(temp_input)));
        input_helper::destroy_token(temp_input);
        return nullptr;""", """        auto input_guard = make_raii_guard([&] { input_helper::destroy_token(temp_input); });
        tbb::detail::invoke(my_body, std::move(input_helper::token(temp_input)));
        return nullptr;""")]),
    dict(name='c03-filter-input-never-destroyed', prop='C03', clause='D10', edits=[('include/oneapi/tbb/detail/_pipeline_filters.h',
        """        tbb::detail::invoke(my_body, std::move(input_helper::token(temp_input)));
        input_helper::destroy_token(temp_input);
        return nullptr;""", """        tbb::detail::invoke(my_body, std::move(input_helper::token(temp_input)));
        return nullptr;""")]),
    dict(name='c03-parked-items-dropped-at-teardown', prop='C03', clause='D10', edits=[(PP_CPP,
        "            b->finalize_parked_items(*f);\n", "")]),
    dict(name='c03-parked-items-finalized-regardless-of-validity', prop='C03', clause='D10', edits=[(PP_CPP,
        "            if( item.is_valid ) {\n                if( item.my_object )\n                    owner.finalize(item.my_object);\n                item.reset();\n            }",
        "            if( item.my_object )\n                owner.finalize(item.my_object);\n            item.reset();")]),
    dict(name='c03-filter-result-not-stored', prop='C03', clause='D10', edits=[(PP_CPP,
        "        my_object = (*my_filter)(my_object);\n        if( my_filter->is_serial() )\n            my_filter->my_input_buffer->try_to_spawn_task_for_next_token(*this, ed);",
        "        void* produced = (*my_filter)(my_object);\n        if( my_filter->is_serial() )\n            my_filter->my_input_buffer->try_to_spawn_task_for_next_token(*this, ed);\n        if( produced ) my_object = produced;")]),
    dict(name='c02-seed3-scan-front-steps-prev', prop='C02', clause='D1', edits=[('src/tbb/concurrent_monitor.h',
        """            for (base_node* n = my_waitset.last(); n != end; n = next) {
                next = n->prev;""", """            for (base_node* n = my_waitset.front(); n != end; n = next) {
                next = n->prev;""")]),
    dict(name='c02-notify-scan-last-steps-next', prop='C02', clause='D1', edits=[('src/tbb/concurrent_monitor.h',
        """            for (base_node* n = my_waitset.last(); n != end; n = nxt) {
                nxt = n->prev;""", """            for (base_node* n = my_waitset.last(); n != end; n = nxt) {
                nxt = n->next;""")]),
    dict(name='c02-pop-skips-invalid-entry-silently', prop='C02', clause='D4', edits=[(CQ_H,
        """            r1::notify_bounded_queue_monitor(my_monitors, cbq_slots_avail_tag, target);
        } while (!popped);
    }""", """        } while (!popped);
        r1::notify_bounded_queue_monitor(my_monitors, cbq_slots_avail_tag, target);
    }""")]),
    dict(name='c02-try-pop-skips-invalid-entry-silently', prop='C02', clause='D4', edits=[(CQ_H,
        """        if (!popped) {
            skipped_ticket(ticket);
        }""", """        suppress_unused_warning(skipped_ticket);""")]),
    dict(name='c02-try-pop-bounded-passes-empty-functor', prop='C02', clause='D4', edits=[(CQ_H,
        """                r1::notify_bounded_queue_monitor(my_monitors, cbq_slots_avail_tag, skipped);
            });""", """                suppress_unused_warning(skipped);
            });""")]),
    dict(name='c02-serializer-16-bit-request-field', prop='C02', clause='D7', edits=[('src/tbb/thread_request_serializer.h',
        "static constexpr std::uint64_t pending_delta_base = std::uint64_t(1) << 32;", "static constexpr std::uint64_t pending_delta_base = 1 << 15;")]),
    dict(name='c02-serializer-previous-word-truncated', prop='C02', clause='D7', edits=[('src/tbb/thread_request_serializer.cpp',
        "    std::uint64_t prev_pending_delta = my_pending_delta.fetch_add(counter_value + delta);", "    int prev_pending_delta = int(my_pending_delta.fetch_add(counter_value + delta));")]),
    dict(name='c02-pop-throwing-assignment-not-announced', prop='C02', clause='D4', edits=[(CQ_H,
        """            auto vacated_guard = make_raii_guard([&] {
                r1::notify_bounded_queue_monitor(my_monitors, cbq_slots_avail_tag, target);
            });
            popped = my_queue_representation->choose(target).pop(dst, target, *my_queue_representation, my_allocator);
            vacated_guard.dismiss();""", """            popped = my_queue_representation->choose(target).pop(dst, target, *my_queue_representation, my_allocator);""")]),
    dict(name='c04-ancestor-climb-stops-at-a-painted-ancestor', prop='C04', clause='D3', edits=[('src/tbb/task_group_context.cpp', '                    (c->*mptr_state).store(new_state, std::memory_order_relaxed);\n                break;\n            }\n        }\n', '                    (c->*mptr_state).store(new_state, std::memory_order_relaxed);\n                break;\n            }\n            // An ancestor that is already in the new state has had its own subtree taken care of\n            if ((ancestor->*mptr_state).load(std::memory_order_relaxed) == new_state)\n                break;\n        }\n')]),
    # ---------------------------------------------------------------- C05
    dict(name='c05-simple-do-while', prop='C05', clause='D1', edits=[
        (PT_H, "        while( range.is_divisible() )\n            start.offer_work( split_obj, ed );", "        do {\n            start.offer_work( split_obj, ed );\n        } while( range.is_divisible() );")]),
    dict(name='c05-split-without-recheck', prop='C05', clause='D1', edits=[
        (PT_H, "                    start.offer_work( split_obj, ed );\n                } while ( range.is_divisible() && self().is_divisible() );",
         "                    start.offer_work( split_obj, ed );\n                } while ( self().is_divisible() );")]),
    dict(name='c05-pool-split-ignores-range', prop='C05', clause='D1', edits=[
        (PT_H, "        return back_depth() < max_depth && back().is_divisible();", "        return back_depth() < max_depth;")]),
    dict(name='c05-scan-split-undivisible', prop='C05', clause='D1', edits=[
        ('include/oneapi/tbb/parallel_scan.h', "    if( (m_is_right_child && !treat_as_stolen) || !m_range.is_divisible() || m_partition.should_execute_range(ed) ) {",
         "    if( (m_is_right_child && !treat_as_stolen) || m_partition.should_execute_range(ed) ) {")]),
    dict(name='c05-2d-wrong-dimension', prop='C05', clause='D2', edits=[
        ('include/oneapi/tbb/blocked_range2d.h', "            my_cols.my_begin = col_range_type::do_split(r.my_cols, split_obj);", "            my_cols.my_begin = col_range_type::do_split(r.my_rows, split_obj);")]),
    dict(name='c05-decl-order-swap', prop='C05', clause='D2', edits=[
        ('include/oneapi/tbb/blocked_range.h', "    Value my_end;\n    Value my_begin;\n    size_type my_grainsize;", "    Value my_begin;\n    Value my_end;\n    size_type my_grainsize;")]),
    dict(name='c05-do_split-off-by-one', prop='C05', clause='D2', edits=[
        ('include/oneapi/tbb/blocked_range.h', "        r.my_end = middle;\n        return middle;", "        r.my_end = middle;\n        return middle + 1;")]),
    dict(name='c05-3d-missing-dimension-copy', prop='C05', clause='D2', edits=[
        ('include/oneapi/tbb/blocked_range3d.h', "    blocked_range3d( blocked_range3d& r, proportional_split& proportion ) :\n        my_pages(r.my_pages),\n        my_rows(r.my_rows),\n        my_cols(r.my_cols)",
         "    blocked_range3d( blocked_range3d& r, proportional_split& proportion ) :\n        my_pages(r.my_pages),\n        my_rows(r.my_rows),\n        my_cols(r.my_rows)")]),
    dict(name='c05-invoke-reserve-2', prop='C05', clause='D4', edits=[
        ('include/oneapi/tbb/parallel_invoke.h', "    root_wait_ctx.reserve(3);", "    root_wait_ctx.reserve(2);")]),
    dict(name='c05-subroot-add-2', prop='C05', clause='D4', edits=[
        ('include/oneapi/tbb/parallel_invoke.h', "        ref_count.fetch_add(3, std::memory_order_relaxed);", "        ref_count.fetch_add(2, std::memory_order_relaxed);")]),
    dict(name='c05-block-missing-reserve', prop='C05', clause='D4', edits=[
        ('include/oneapi/tbb/parallel_for_each.h', "        for(std::size_t counter = 1; counter < my_size; ++counter) {\n            my_wait_context.reserve();\n            spawn(*(task_pool.begin() + counter), my_execution_context);",
         "        for(std::size_t counter = 1; counter < my_size; ++counter) {\n            spawn(*(task_pool.begin() + counter), my_execution_context);")]),
    dict(name='c05-run-without-empty-check', prop='C05', clause='D3', edits=[
        ('include/oneapi/tbb/parallel_for.h', "    static void run(const Range& range, const Body& body, Partitioner& partitioner, task_group_context& context) {\n        if ( !range.empty() ) {",
         "    static void run(const Range& range, const Body& body, Partitioner& partitioner, task_group_context& context) {\n        {")]),
    dict(name='c05-pool-pop-without-run', prop='C05', clause='D3', edits=[
        (PT_H, "                start.run_body( range_pool.back() );\n                range_pool.pop_back();", "                if (range_pool.size() < 7) start.run_body( range_pool.back() );\n                range_pool.pop_back();")]),
    dict(name='c05-seed3-count-rounded-up-by-adding-step', prop='C05', clause='D6', edits=[(PF_H,
        "        Index end = (last - first - Index(1)) / step + Index(1);", "        Index end = Index((last - first) + (step - Index(1))) / step;")]),
    dict(name='c01-dispatcher-dtor-destroys-vertices-with-children', prop='C01', clause='D6', edits=[('src/tbb/scheduler_common.h',
        """            if (node->get_num_child() == 0) {
                node->~reference_vertex();
                cache_aligned_deallocate(node);
            }""",
        """            node->~reference_vertex();
            cache_aligned_deallocate(node);""")]),
    dict(name='c01-vertex-map-cleanup-ignores-children', prop='C01', clause='D6', edits=[('src/tbb/task.cpp',
        "                if (it->second->get_num_child() == 0) {", "                if (it->second != ref_counter) {")]),
    dict(name='c01-group-wait-typed-handler-resets-only', prop='C01', clause='D9', edits=[('include/oneapi/tbb/task_group.h',
        '        bool cancellation_status = false;\n        try_call([&] {\n            d1::wait(m_wait_vertex.get_context(), context());\n        }).on_completion([&] {\n            // TODO: the reset method is not thread-safe. Ensure the correct behavior.\n            cancellation_status = m_context.is_group_execution_cancelled();\n            context().reset();\n        });\n        return cancellation_status ? canceled : complete;',
        '        try {\n            d1::wait(m_wait_vertex.get_context(), context());\n        } catch (const std::exception&) {\n            context().reset();\n            throw;\n        }\n        bool cancellation_status = m_context.is_group_execution_cancelled();\n        context().reset();\n        return cancellation_status ? canceled : complete;')]),
    dict(name='c01-group-wait-no-reset-when-the-wait-throws', prop='C01', clause='D9', edits=[('include/oneapi/tbb/task_group.h',
        '        bool cancellation_status = false;\n        try_call([&] {\n            d1::wait(m_wait_vertex.get_context(), context());\n        }).on_completion([&] {\n            // TODO: the reset method is not thread-safe. Ensure the correct behavior.\n            cancellation_status = m_context.is_group_execution_cancelled();\n            context().reset();\n        });\n        return cancellation_status ? canceled : complete;',
        '        d1::wait(m_wait_vertex.get_context(), context());\n        bool cancellation_status = m_context.is_group_execution_cancelled();\n        context().reset();\n        return cancellation_status ? canceled : complete;')]),
    dict(name='c03-group-wait-typed-handler-resets-only', prop='C03', clause='D5', edits=[('include/oneapi/tbb/task_group.h',
        '        bool cancellation_status = false;\n        try_call([&] {\n            d1::wait(m_wait_vertex.get_context(), context());\n        }).on_completion([&] {\n            // TODO: the reset method is not thread-safe. Ensure the correct behavior.\n            cancellation_status = m_context.is_group_execution_cancelled();\n            context().reset();\n        });\n        return cancellation_status ? canceled : complete;',
        '        try {\n            d1::wait(m_wait_vertex.get_context(), context());\n        } catch (const std::exception&) {\n            context().reset();\n            throw;\n        }\n        bool cancellation_status = m_context.is_group_execution_cancelled();\n        context().reset();\n        return cancellation_status ? canceled : complete;')]),
    dict(name='c03-group-wait-no-reset-when-the-wait-throws', prop='C03', clause='D5', edits=[('include/oneapi/tbb/task_group.h',
        '        bool cancellation_status = false;\n        try_call([&] {\n            d1::wait(m_wait_vertex.get_context(), context());\n        }).on_completion([&] {\n            // TODO: the reset method is not thread-safe. Ensure the correct behavior.\n            cancellation_status = m_context.is_group_execution_cancelled();\n            context().reset();\n        });\n        return cancellation_status ? canceled : complete;',
        '        d1::wait(m_wait_vertex.get_context(), context());\n        bool cancellation_status = m_context.is_group_execution_cancelled();\n        context().reset();\n        return cancellation_status ? canceled : complete;')]),
    dict(name='c03-reduce-task-destroyed-before-the-fold', prop='C03', clause='D12', edits=[('include/oneapi/tbb/parallel_reduce.h',
        """    wait_node* root = fold_tree_to_root<tree_node_type>(my_parent, ed);
    auto allocator = my_allocator;
    // Task execution finished - destroy it
    this->~start_reduce();""",
        """    node* parent = my_parent;
    auto allocator = my_allocator;
    // Task execution finished - destroy it
    this->~start_reduce();
    wait_node* root = fold_tree_to_root<tree_node_type>(parent, ed);""")]),
    dict(name='c03-det-reduce-task-destroyed-before-the-fold', prop='C03', clause='D12', edits=[('include/oneapi/tbb/parallel_reduce.h',
        """    wait_node* root = fold_tree_to_root<tree_node_type>(my_parent, ed);
    auto allocator = my_allocator;
    // Task execution finished - destroy it
    this->~start_deterministic_reduce();""",
        """    node* parent = my_parent;
    auto allocator = my_allocator;
    // Task execution finished - destroy it
    this->~start_deterministic_reduce();
    wait_node* root = fold_tree_to_root<tree_node_type>(parent, ed);""")]),
    dict(name='c03-fold-does-not-give-the-reference-back', prop='C03', clause='D12', edits=[('include/oneapi/tbb/partitioner.h',
        """        try_call([&] {
            self->join(ed.context);
        }).on_exception([&] {
            ++n->m_ref_count;
        });""",
        """        self->join(ed.context);""")]),
    dict(name='c01-reduce-root-never-released', prop='C01', clause='D6', edits=[('include/oneapi/tbb/parallel_reduce.h',
        """    this->~start_reduce();
    // Finish parallel reduce execution when the root (last node) is reached
    if (root) {
        root->m_wait.release();
    }""",
        """    this->~start_reduce();
    (void)root;""")]),
    dict(name='c03-graph-task-destructor-does-not-release', prop='C03', clause='D13', edits=[('include/oneapi/tbb/detail/_flow_graph_impl.h',
        """    ~graph_task() {
        if (my_reference_vertex) {
            my_reference_vertex->release();
        }
    }""",
        """    ~graph_task() {}""")]),
    dict(name='c03-new-object-without-storage-guard', prop='C03', clause='D13', edits=[('include/oneapi/tbb/detail/_small_object_pool.h',
        """        struct storage_guard {
            small_object_pool& pool;
            void* storage;
            ~storage_guard() {
                if (storage) {
                    r1::deallocate(pool, storage, sizeof(Type));
                }
            }
        } guard{*m_pool, allocated_object};
        auto constructed_object = new(allocated_object) Type(std::forward<Args>(args)...);
        guard.storage = nullptr;""",
        """        auto constructed_object = new(allocated_object) Type(std::forward<Args>(args)...);""")]),
    dict(name='c03-final-sum-destroys-range-unconditionally', prop='C03', clause='D4', edits=[('include/oneapi/tbb/parallel_scan.h',
        """        if (m_range_constructed) {
            m_range.begin()->~Range();
        }""",
        """        m_range.begin()->~Range();""")]),
    dict(name='c03-arena-function-result-flag-never-raised', prop='C03', clause='D4', edits=[('include/oneapi/tbb/task_arena.h',
        """        my_constructed = true;
        return std::move(*(my_return_storage.begin()));""",
        """        return std::move(*(my_return_storage.begin()));""")]),
    dict(name='c18-seed4-large-object-rollback-with-invalid-backref', prop='C18', clause='D2', edits=[('src/tbbmalloc/large_objects.cpp',
        """        if (backRefIdx.isInvalid())
            return nullptr;

        // unalignedSize is set in getLargeBlock
        lmb = backend.getLargeBlock(allocationSize);""",
        """        // unalignedSize is set in getLargeBlock
        if (!backRefIdx.isInvalid())
            lmb = backend.getLargeBlock(allocationSize);""")]),
    dict(name='c18-startup-block-backref-not-checked', prop='C18', clause='D2', edits=[('src/tbbmalloc/frontend.cpp',
        """    BackRefIdx backRefIdx = BackRefIdx::newBackRef(/*largeObj=*/false);
    if (backRefIdx.isInvalid()) return nullptr;

    StartupBlock *block""",
        """    BackRefIdx backRefIdx = BackRefIdx::newBackRef(/*largeObj=*/false);

    StartupBlock *block""")]),
    dict(name='c17-seed4-calloc-skips-memset-for-huge-blocks', prop='C17', clause='D2', edits=[('src/tbbmalloc/frontend.cpp',
        """    if (result)
        memset(result, 0, arraySize);
    else
        errno = ENOMEM;""",
        """    if (result) {
        if (arraySize <= LargeObjectCache::defaultMaxHugeSize)
            memset(result, 0, arraySize);
    } else
        errno = ENOMEM;""")]),
    dict(name='c07-end-of-input-mark-never-lowered', prop='C07', clause='D6', edits=[('src/tbb/parallel_pipeline.cpp',
        """        if( end_of_input_tls.get() != nullptr ) {
            end_of_input_tls.set(nullptr);
            return true;
        }
        return false;""",
        """        return end_of_input_tls.get() != nullptr;""")]),
    dict(name='c11-seed4-capacity-from-the-last-allocated-segment', prop='C11', clause='D5', edits=[('include/oneapi/tbb/detail/_segment_table.h',
        '        segment_table_type table = get_table();\n        size_type num_segments = number_of_segments(table);\n        for (size_type seg_index = 0; seg_index < num_segments; ++seg_index) {\n            // Check if the pointer is valid (allocated)\n            if (table[seg_index].load(std::memory_order_relaxed) <= segment_allocation_failure_tag) {\n                return segment_base(seg_index);\n            }\n        }\n        return segment_base(num_segments);',
        '        return segment_base(find_last_allocated_segment(get_table()));')]),
    dict(name='c11-capacity-scan-skips-failed-entries', prop='C11', clause='D5', edits=[('include/oneapi/tbb/detail/_segment_table.h',
        '        segment_table_type table = get_table();\n        size_type num_segments = number_of_segments(table);\n        for (size_type seg_index = 0; seg_index < num_segments; ++seg_index) {\n            // Check if the pointer is valid (allocated)\n            if (table[seg_index].load(std::memory_order_relaxed) <= segment_allocation_failure_tag) {\n                return segment_base(seg_index);\n            }\n        }\n        return segment_base(num_segments);',
        '        segment_table_type table = get_table();\n        size_type num_segments = number_of_segments(table);\n        for (size_type seg_index = 0; seg_index < num_segments; ++seg_index) {\n            // Check if the pointer is valid (allocated)\n            if (table[seg_index].load(std::memory_order_relaxed) <= segment_allocation_failure_tag) {\n                if (table[seg_index].load(std::memory_order_relaxed) == nullptr) return segment_base(seg_index);\n            }\n        }\n        return segment_base(num_segments);')]),
    dict(name='c11-loop-construct-element-access-in-front-of-the-guard', prop='C11', clause='D9', edits=[('include/oneapi/tbb/concurrent_vector.h',
        """            auto value_guard = make_raii_guard( [&] {
                abandon_range(table, idx, end_idx);
            });
            auto element_address = &base_type::template internal_subscript</*allow_out_of_range_access=*/true>(idx);
""",
        """            auto element_address = &base_type::template internal_subscript</*allow_out_of_range_access=*/true>(idx);
            auto value_guard = make_raii_guard( [&] {
                abandon_range(table, idx, end_idx);
            });
""")]),
    dict(name='c11-grow-advance-allocation-unguarded', prop='C11', clause='D9', edits=[('include/oneapi/tbb/concurrent_vector.h',
        """        } ).on_exception( [&] {
            abandon_range(this->get_table(), start_idx, end_idx);
        });""",
        """        } ).on_exception( [&] {
            (void)start_idx;
        });""")]),
    dict(name='c11-first-block-wait-unconditional', prop='C11', clause='D9', edits=[('include/oneapi/tbb/concurrent_vector.h',
        """            if (table[0].load(std::memory_order_acquire) == this->segment_allocation_failure_tag) {
                segment_type expected = nullptr;
                table[seg_index].compare_exchange_strong(expected, this->segment_allocation_failure_tag);
                break;
            }
            backoff.pause();""",
        """            backoff.pause();""")]),
    dict(name='c11-wait-path-returns-over-a-failed-segment', prop='C11', clause='D9', edits=[('include/oneapi/tbb/concurrent_vector.h',
        """            if (this->get_table()[seg_idx].load(std::memory_order_relaxed) == this->segment_allocation_failure_tag) {
                throw_exception(exception_id::bad_alloc);
            }
        }""",
        """        }""")]),
    dict(name='c11-abandon-range-does-not-zero-fill', prop='C11', clause='D4', edits=[('include/oneapi/tbb/concurrent_vector.h',
        """                zero_unconstructed_elements(&this->internal_subscript(i), /*count =*/1);
            }
        }
    }

    template <typename... Args>
    void internal_loop_construct""",
        """                (void)i;
            }
        }
    }

    template <typename... Args>
    void internal_loop_construct""")]),
    dict(name='c11-iterator-decrement-tests-the-new-index', prop='C11', clause='D5', edits=[('include/oneapi/tbb/concurrent_vector.h',
        """        if (my_item != nullptr) {
            // Going down, the segment boundary is crossed when the current element is the first one of its segment
            if (vector_type::is_first_element_in_segment(my_index)) {
                // If the iterator crosses a segment boundary, the pointer become invalid
                // as possibly next segment is in another memory location
                my_item = nullptr;
            } else {
                --my_item;
            }
        }
        --my_index;
        return *this;""",
        """        --my_index;
        if (my_item != nullptr) {
            if (vector_type::is_first_element_in_segment(my_index)) {
                my_item = nullptr;
            } else {
                --my_item;
            }
        }
        return *this;""")]),
    dict(name='c11-iterator-increment-tests-the-old-index', prop='C11', clause='D5', edits=[('include/oneapi/tbb/concurrent_vector.h',
        """        ++my_index;
        if (my_item != nullptr) {
            if (vector_type::is_first_element_in_segment(my_index)) {
                // If the iterator crosses a segment boundary, the pointer become invalid
                // as possibly next segment is in another memory location
                my_item = nullptr;
            } else {
                ++my_item;
            }
        }
        return *this;""",
        """        if (my_item != nullptr) {
            if (vector_type::is_first_element_in_segment(my_index)) {
                my_item = nullptr;
            } else {
                ++my_item;
            }
        }
        ++my_index;
        return *this;""")]),
    dict(name='c11-at-lets-the-table-size-through', prop='C11', clause='D5', edits=[('include/oneapi/tbb/concurrent_vector.h',
        "        if (base_type::number_of_segments(table) <= seg_index) {", "        if (base_type::number_of_segments(table) < seg_index) {")]),
    dict(name='c19-seed4-table-copy-keeps-its-own-key-count', prop='C19', clause='D5', edits=[('include/oneapi/tbb/enumerable_thread_specific.h',
        "        my_count.store(other.my_count.load(std::memory_order_relaxed), std::memory_order_relaxed);",
        "        my_count.store(my_count.load(std::memory_order_relaxed), std::memory_order_relaxed);")]),
    dict(name='c19-table-copy-does-not-count-keys', prop='C19', clause='D5', edits=[('include/oneapi/tbb/enumerable_thread_specific.h',
        "        my_count.store(other.my_count.load(std::memory_order_relaxed), std::memory_order_relaxed);\n", "")]),
    dict(name='c19-tls-key-creation-result-discarded', prop='C19', clause='D5', edits=[('include/oneapi/tbb/enumerable_thread_specific.h',
        """        if (pthread_key_create(&my_key, nullptr) != 0) {
            tbb::detail::throw_exception(exception_id::bad_alloc);
        }""",
        """        (void)pthread_key_create(&my_key, nullptr);""")]),
    dict(name='c20-seed4-recall-flag-raised-before-the-stack-state', prop='C20', clause='D3', edits=[('src/tbb/scheduler_common.h',
        """        m_stack_state.store(stack_state::notified, std::memory_order_relaxed);
        m_is_owner_recalled.store(true, std::memory_order_release);""",
        """        m_is_owner_recalled.store(true, std::memory_order_release);
        m_stack_state.store(stack_state::notified, std::memory_order_relaxed);""")]),
    dict(name='c01-seed4-execute-tests-the-slot-before-registering', prop='C01', clause='D9', edits=[('src/tbb/arena.cpp', '                a->my_exit_monitors.prepare_wait(waiter);\n                if (!wo.continue_execution()) {\n                    a->my_exit_monitors.cancel_wait(waiter);\n                    break;\n                }\n                index2 = a->occupy_free_slot</*as_worker*/false>(*td);\n                if (index2 != arena::out_of_arena) {\n                    a->my_exit_monitors.cancel_wait(waiter);\n                    nested_arena_context scope(*td, *a, index2 );', '                index2 = a->occupy_free_slot</*as_worker*/false>(*td);\n                if (index2 != arena::out_of_arena) {\n                    nested_arena_context scope(*td, *a, index2 );'), ('src/tbb/arena.cpp', '                    break;\n                }\n                a->my_exit_monitors.commit_wait(waiter);', '                    break;\n                }\n                a->my_exit_monitors.prepare_wait(waiter);\n                if (!wo.continue_execution()) {\n                    a->my_exit_monitors.cancel_wait(waiter);\n                    break;\n                }\n                a->my_exit_monitors.commit_wait(waiter);')]),
    dict(name='c02-seed4-execute-tests-the-slot-before-registering', prop='C02', clause='D2', edits=[('src/tbb/arena.cpp', '                a->my_exit_monitors.prepare_wait(waiter);\n                if (!wo.continue_execution()) {\n                    a->my_exit_monitors.cancel_wait(waiter);\n                    break;\n                }\n                index2 = a->occupy_free_slot</*as_worker*/false>(*td);\n                if (index2 != arena::out_of_arena) {\n                    a->my_exit_monitors.cancel_wait(waiter);\n                    nested_arena_context scope(*td, *a, index2 );', '                index2 = a->occupy_free_slot</*as_worker*/false>(*td);\n                if (index2 != arena::out_of_arena) {\n                    nested_arena_context scope(*td, *a, index2 );'), ('src/tbb/arena.cpp', '                    break;\n                }\n                a->my_exit_monitors.commit_wait(waiter);', '                    break;\n                }\n                a->my_exit_monitors.prepare_wait(waiter);\n                if (!wo.continue_execution()) {\n                    a->my_exit_monitors.cancel_wait(waiter);\n                    break;\n                }\n                a->my_exit_monitors.commit_wait(waiter);')]),
    dict(name='c16-seed6-execute-tests-the-slot-before-registering', prop='C16', clause='D1', edits=[('src/tbb/arena.cpp', '                a->my_exit_monitors.prepare_wait(waiter);\n                if (!wo.continue_execution()) {\n                    a->my_exit_monitors.cancel_wait(waiter);\n                    break;\n                }\n                index2 = a->occupy_free_slot</*as_worker*/false>(*td);\n                if (index2 != arena::out_of_arena) {\n                    a->my_exit_monitors.cancel_wait(waiter);\n                    nested_arena_context scope(*td, *a, index2 );', '                index2 = a->occupy_free_slot</*as_worker*/false>(*td);\n                if (index2 != arena::out_of_arena) {\n                    nested_arena_context scope(*td, *a, index2 );'), ('src/tbb/arena.cpp', '                    break;\n                }\n                a->my_exit_monitors.commit_wait(waiter);', '                    break;\n                }\n                a->my_exit_monitors.prepare_wait(waiter);\n                if (!wo.continue_execution()) {\n                    a->my_exit_monitors.cancel_wait(waiter);\n                    break;\n                }\n                a->my_exit_monitors.commit_wait(waiter);')]),
    dict(name='c20-seed5-isolated-waits-skip-the-resume-stream', prop='C20', clause='D2', edits=[(TDH, '    bool stealing_is_allowed = can_steal();\n', '    bool stealing_is_allowed = can_steal();\n    const bool streams_allowed = isolation == no_isolation;\n'), (TDH, '        else if ((t = get_stream_or_critical_task(ed, a, resume_stream, resume_hint, isolation, critical_allowed))) {', '        else if (streams_allowed\n                 && (t = get_stream_or_critical_task(ed, a, resume_stream, resume_hint, isolation, critical_allowed))) {'), (TDH, '        else if (fifo_allowed && isolation == no_isolation\n                 && (t = get_stream_or_critical_task(ed, a, fifo_stream, fifo_hint, isolation, critical_allowed))) {', '        else if (streams_allowed && fifo_allowed\n                 && (t = get_stream_or_critical_task(ed, a, fifo_stream, fifo_hint, isolation, critical_allowed))) {')]),
    dict(name='c20-resume-stream-gated-by-isolation-directly', prop='C20', clause='D2', edits=[(TDH, '        else if ((t = get_stream_or_critical_task(ed, a, resume_stream, resume_hint, isolation, critical_allowed))) {', '        else if (isolation == no_isolation\n                 && (t = get_stream_or_critical_task(ed, a, resume_stream, resume_hint, isolation, critical_allowed))) {')]),
    dict(name='c20-critical-stream-filter-without-the-resume-exemption', prop='C20', clause='D2', edits=[('src/tbb/task_stream.h', '            if( result && (task_accessor::isolation(*result) == isolation || task_accessor::is_resume_task(*result)) ) {', '            if( result && task_accessor::isolation(*result) == isolation ) {')]),
    dict(name='c20-resume-advertised-with-wakeup-only', prop='C20', clause='D2', edits=[('src/tbb/task.cpp',
        "        a.advertise_new_work<arena::work_enqueued>();", "        a.advertise_new_work<arena::wakeup>();")]),
    dict(name='c20-mandatory-worker-released-over-a-pending-resume', prop='C20', clause='D2', edits=[('src/tbb/arena.cpp',
        "    return !my_fifo_task_stream.empty() || !my_resume_task_stream.empty();", "    return !my_fifo_task_stream.empty();")]),
    dict(name='c12-ordered-range-empty-tests-the-successor', prop='C12', clause='D7', edits=[('include/oneapi/tbb/detail/_concurrent_skip_list.h',
        "            return my_begin.my_node_ptr == my_end.my_node_ptr;",
        "            return my_begin.my_node_ptr ? (my_begin.my_node_ptr->next(0) == my_end.my_node_ptr) : true;")]),
    dict(name='c13-swap-leaves-the-comparator', prop='C13', clause='D5', edits=[('include/oneapi/tbb/concurrent_priority_queue.h',
        "            swap(my_compare, other.my_compare);\n", "")]),
    dict(name='c13-copy-assignment-leaves-the-comparator', prop='C13', clause='D5', edits=[('include/oneapi/tbb/concurrent_priority_queue.h',
        "            my_compare = other.my_compare;\n        }\n        return *this;\n    }\n\n    concurrent_priority_queue& operator=( concurrent_priority_queue&& other ) {",
        "        }\n        return *this;\n    }\n\n    concurrent_priority_queue& operator=( concurrent_priority_queue&& other ) {")]),
    dict(name='c13-moved-from-queue-keeps-its-bookkeeping', prop='C13', clause='D5', edits=[('include/oneapi/tbb/concurrent_priority_queue.h',
        "    void reset_moved_from() {\n        data.clear();\n        mark = 0;\n        my_size.store(0, std::memory_order_relaxed);", "    void reset_moved_from() {\n        data.clear();")]),
    dict(name='c05-seed5-is-divisible-adds-the-grain-to-begin', prop='C05', clause='D1', edits=[('include/oneapi/tbb/blocked_range.h',
        "    bool is_divisible() const { return my_grainsize<size(); }",
        "    bool is_divisible() const { return Value(my_begin + my_grainsize) < my_end; }")]),
    dict(name='c02-seed5-rw-downgrade-wakes-one-reader', prop='C02', clause='D4', edits=[('include/oneapi/tbb/rw_mutex.h',
        "            r1::notify_by_address(this, READER_CONTEXT);\n        }\n\n        __TBB_ASSERT(m_state.load(std::memory_order_relaxed) & READERS, \"invalid state after downgrade: no readers\");",
        "            r1::notify_by_address_one(this);\n        }\n\n        __TBB_ASSERT(m_state.load(std::memory_order_relaxed) & READERS, \"invalid state after downgrade: no readers\");")]),
    dict(name='c08-seed5-rw-downgrade-wakes-nobody', prop='C08', clause='D7', edits=[('include/oneapi/tbb/rw_mutex.h',
        "        if (!(m_state & WRITER_PENDING)) {\n            r1::notify_by_address(this, READER_CONTEXT);\n        }\n\n        __TBB_ASSERT(m_state.load(std::memory_order_relaxed) & READERS, \"invalid state after downgrade: no readers\");",
        "        __TBB_ASSERT(m_state.load(std::memory_order_relaxed) & READERS, \"invalid state after downgrade: no readers\");")]),
    dict(name='c06-seed5-zombie-flag-raised-before-the-split', prop='C06', clause='D2', edits=[('include/oneapi/tbb/parallel_reduce.h',
        "        my_body = static_cast<Body*>(new( parent_ptr->zombie_space.begin() ) Body(*my_body, split()));\n        parent_ptr->has_right_zombie = true;",
        "        parent_ptr->has_right_zombie = true;\n        my_body = static_cast<Body*>(new( parent_ptr->zombie_space.begin() ) Body(*my_body, split()));")]),
    dict(name='c03-zombie-flag-raised-before-the-split', prop='C03', clause='D4', edits=[('include/oneapi/tbb/parallel_reduce.h',
        "        my_body = static_cast<Body*>(new( parent_ptr->zombie_space.begin() ) Body(*my_body, split()));\n        parent_ptr->has_right_zombie = true;",
        "        parent_ptr->has_right_zombie = true;\n        my_body = static_cast<Body*>(new( parent_ptr->zombie_space.begin() ) Body(*my_body, split()));")]),
    dict(name='c12-seed5-unlink-counts-the-node-out-and-merge-puts-it-back', prop='C12', clause='D8', edits=[
        ('include/oneapi/tbb/detail/_concurrent_unordered_base.h', "                unlink_node(prev_node, node, node_to_extract->next());\n                my_size.store(my_size.load(std::memory_order_relaxed) - 1, std::memory_order_relaxed);",
         "                unlink_node(prev_node, node, node_to_extract->next());"),
        ('include/oneapi/tbb/detail/_concurrent_unordered_base.h', "                    } else {\n                        source.my_size.fetch_sub(1, std::memory_order_relaxed);\n                    }", "                    }"),
        ('include/oneapi/tbb/detail/_concurrent_unordered_base.h', "        prev_node->set_next(next_node);\n        node_to_unlink->set_next(nullptr);", "        prev_node->set_next(next_node);\n        node_to_unlink->set_next(nullptr);\n        my_size.fetch_sub(1, std::memory_order_relaxed);")]),
    dict(name='c12-extract-does-not-count-the-node-out', prop='C12', clause='D8', edits=[
        ('include/oneapi/tbb/detail/_concurrent_unordered_base.h', "                unlink_node(prev_node, node, node_to_extract->next());\n                my_size.store(my_size.load(std::memory_order_relaxed) - 1, std::memory_order_relaxed);",
         "                unlink_node(prev_node, node, node_to_extract->next());")]),
    dict(name='c14-seed5-release-does-not-request-forwarding', prop='C14', clause='D1', edits=[('include/oneapi/tbb/flow_graph.h',
        "            case rel_res:  internal_release(tmp); try_forwarding = true; break;", "            case rel_res:  internal_release(tmp); break;")]),
    dict(name='c14-consume-does-not-request-forwarding', prop='C14', clause='D1', edits=[('include/oneapi/tbb/flow_graph.h',
        "            case con_res:  internal_consume(tmp); try_forwarding = true; break;", "            case con_res:  internal_consume(tmp); break;")]),
    dict(name='c17-seed5-calloc-heuristic-requires-both-factors-large', prop='C17', clause='D2', edits=[('src/tbbmalloc/frontend.cpp',
        "    if (nobj>=mult_not_overflow || size>=mult_not_overflow) // 1) heuristic check", "    if (nobj>=mult_not_overflow && size>=mult_not_overflow) // 1) heuristic check")]),
    dict(name='c18-seed5-middle-cut-tests-the-sum-of-the-leftovers', prop='C18', clause='D3', edits=[('src/tbbmalloc/backend.cpp',
        """                if (rightNew <= rightCurr
                        && (newB == curr || ((uintptr_t)newB - (uintptr_t)curr) >= FreeBlock::minBlockSize)
                        && (rightNew == rightCurr || (rightCurr - rightNew) >= FreeBlock::minBlockSize))
                    fBlock = curr;""",
        """                size_t rest = szBlock - size;
                if (rightNew <= rightCurr && (rest >= FreeBlock::minBlockSize || !rest))
                    fBlock = curr;""")]),
    dict(name='c18-middle-cut-does-not-test-the-right-leftover', prop='C18', clause='D3', edits=[('src/tbbmalloc/backend.cpp',
        "                        && (rightNew == rightCurr || (rightCurr - rightNew) >= FreeBlock::minBlockSize))\n                    fBlock = curr;",
        "                        )\n                    fBlock = curr;")]),
    dict(name='c03-seed5-scan-handler-deletes-the-body-it-handed-over', prop='C03', clause='D11', edits=[('include/oneapi/tbb/parallel_scan.h', '            temp_body.reverse_join(body);\n\n            auto& pass1 = *alloc.new_object<start_pass1_type>(/*m_return_slot=*/root, range, temp_body, partitioner, w_ctx, alloc);\n\n            execute_and_wait(pass1, context, w_ctx, context);\n            if( root ) {\n                root->prepare_for_execution(temp_body, nullptr, &body);\n                w_ctx.reserve();\n                execute_and_wait(*root, context, w_ctx, context);\n            } else {\n                temp_body.assign_to(body);\n                temp_body.finish_construction(nullptr, range, nullptr);\n                alloc.delete_object<final_sum_type>(&temp_body);\n            }\n', '            try_call( [&] {\n                temp_body.reverse_join(body);\n\n                auto& pass1 = *alloc.new_object<start_pass1_type>(/*m_return_slot=*/root, range, temp_body, partitioner, w_ctx, alloc);\n\n                execute_and_wait(pass1, context, w_ctx, context);\n                if( root ) {\n                    root->prepare_for_execution(temp_body, nullptr, &body);\n                    w_ctx.reserve();\n                    execute_and_wait(*root, context, w_ctx, context);\n                } else {\n                    temp_body.assign_to(body);\n                    temp_body.finish_construction(nullptr, range, nullptr);\n                }\n            } ).on_exception( [&] {\n                alloc.delete_object<final_sum_type>(&temp_body);\n            } );\n            if( !root ) {\n                alloc.delete_object<final_sum_type>(&temp_body);\n            }\n')]),
    dict(name='c01-seed3-run-and-wait-handle-epilogue-on-exception-only', prop='C01', clause='D9', edits=[('include/oneapi/tbb/task_group.h',
        """            execute_and_wait(*acs::release(h), context(), m_wait_vertex.get_context(), context());
        }).on_completion([&] {""",
        """            execute_and_wait(*acs::release(h), context(), m_wait_vertex.get_context(), context());
        }).on_exception([&] {""")]),
    dict(name='c01-group-wait-epilogue-on-exception-only', prop='C01', clause='D9', edits=[('include/oneapi/tbb/task_group.h',
        """            d1::wait(m_wait_vertex.get_context(), context());
        }).on_completion([&] {""",
        """            d1::wait(m_wait_vertex.get_context(), context());
        }).on_exception([&] {""")]),
    dict(name='c01-group-wait-does-not-reset-context', prop='C01', clause='D9', edits=[('include/oneapi/tbb/task_group.h',
        """            cancellation_status = m_context.is_group_execution_cancelled();
            context().reset();""",
        """            cancellation_status = m_context.is_group_execution_cancelled();""")]),
    dict(name='c02-seed4-mandatory-worker-bound-by-level-share', prop='C02', clause='D7', edits=[('src/tbb/market.cpp',
        "allotted = client.min_workers() > 0 && assigned < max_workers ? 1 : 0;", "allotted = client.min_workers() > 0 && assigned < assigned_per_priority ? 1 : 0;")]),
    dict(name='c02-mandatory-worker-only-while-level-has-demand', prop='C02', clause='D7', edits=[('src/tbb/market.cpp',
        "allotted = client.min_workers() > 0 && assigned < max_workers ? 1 : 0;",
        "allotted = client.min_workers() > 0 && assigned < max_workers && my_priority_level_demand[list_idx] > carry ? 1 : 0;")]),
    dict(name='c08-seed4-rtm-upgrade-raises-flag-before-owning', prop='C08', clause='D1', edits=[('src/tbb/rtm_rw_mutex.cpp',
        """            bool no_release = s.m_mutex->upgrade();
            __TBB_ASSERT(!s.m_mutex->write_flag.load(std::memory_order_relaxed), "After upgrade, write_flag already true");
            s.m_mutex->write_flag.store(true, std::memory_order_relaxed);
            return no_release;""",
        """            s.m_mutex->write_flag.store(true, std::memory_order_relaxed);
            return s.m_mutex->upgrade();""")]),
    dict(name='c08-rtm-release-lowers-flag-after-unlock', prop='C08', clause='D1', edits=[('src/tbb/rtm_rw_mutex.cpp',
        """            s.m_mutex->write_flag.store(false, std::memory_order_relaxed);
            s.m_mutex->unlock();""",
        """            s.m_mutex->unlock();
            s.m_mutex->write_flag.store(false, std::memory_order_relaxed);""")]),
    dict(name='c08-rtm-downgrade-keeps-flag-until-after', prop='C08', clause='D1', edits=[('src/tbb/rtm_rw_mutex.cpp',
        """            s.m_mutex->write_flag.store(false, std::memory_order_relaxed);
            s.m_mutex->downgrade();""",
        """            s.m_mutex->downgrade();
            s.m_mutex->write_flag.store(false, std::memory_order_relaxed);""")]),
    dict(name='c08-rtm-try-writer-raises-flag-before-try-lock', prop='C08', clause='D1', edits=[('src/tbb/rtm_rw_mutex.cpp',
        """        if (m.try_lock()) {
            s.m_mutex = &m;""",
        """        m.write_flag.store(true, std::memory_order_relaxed);
        if (m.try_lock()) {
            s.m_mutex = &m;""")]),
    dict(name='c12-seed4-skip-list-copy-assign-inserts-before-comparator', prop='C12', clause='D6', edits=[('include/oneapi/tbb/detail/_concurrent_skip_list.h',
        """            my_compare = other.my_compare;
            my_rng = other.my_rng;
            internal_copy(other);""",
        """            internal_copy(other);
            my_compare = other.my_compare;
            my_rng = other.my_rng;""")]),
    dict(name='c12-unordered-copy-assign-keeps-own-hasher', prop='C12', clause='D6', edits=[('include/oneapi/tbb/detail/_concurrent_unordered_base.h',
        """            my_hash_compare = other.my_hash_compare;
            my_segments = other.my_segments;""",
        """            my_segments = other.my_segments;""")]),
    dict(name='c12-unordered-move-assign-keeps-own-hasher', prop='C12', clause='D6', edits=[('include/oneapi/tbb/detail/_concurrent_unordered_base.h',
        """            my_hash_compare = std::move(other.my_hash_compare);
            my_segments = std::move(other.my_segments);""",
        """            my_segments = std::move(other.my_segments);""")]),
    dict(name='c12-unordered-copy-ctor-default-hasher', prop='C12', clause='D6', edits=[('include/oneapi/tbb/detail/_concurrent_unordered_base.h',
        """          my_hash_compare(other.my_hash_compare),
          my_head(other.my_head.order_key()),
          my_segments(other.my_segments)
""",
        """          my_hash_compare(),
          my_head(other.my_head.order_key()),
          my_segments(other.my_segments)
""")]),
    dict(name='c05-seed4-pop-back-unsigned-char-underflow', prop='C05', clause='D7', edits=[(PT_H,
        "        my_head = (my_head + MaxCapacity - 1) % MaxCapacity;", "        my_head = (my_head - 1) % MaxCapacity;")]),
    dict(name='c05-pop-front-steps-by-two', prop='C05', clause='D7', edits=[(PT_H,
        "        my_tail = (my_tail + 1) % MaxCapacity;", "        my_tail = (my_tail + 2) % MaxCapacity;")]),
    dict(name='c05-2d-split-dimension-by-rounded-ratio-only', prop='C05', clause='D1', edits=[('include/oneapi/tbb/blocked_range2d.h', '        if ( !my_rows.is_divisible() || (my_cols.is_divisible() &&\n             my_rows.size()*double(my_cols.grainsize()) < my_cols.size()*double(my_rows.grainsize())) ) {', '        if ( my_rows.size()*double(my_cols.grainsize()) < my_cols.size()*double(my_rows.grainsize()) ) {')]),
    dict(name='c05-2d-rows-chosen-although-not-divisible', prop='C05', clause='D1', edits=[('include/oneapi/tbb/blocked_range2d.h', '        if ( !my_rows.is_divisible() || (my_cols.is_divisible() &&\n             my_rows.size()*double(my_cols.grainsize()) < my_cols.size()*double(my_rows.grainsize())) ) {', '        if ( my_cols.is_divisible() &&\n             my_rows.size()*double(my_cols.grainsize()) < my_cols.size()*double(my_rows.grainsize()) ) {')]),
    dict(name='c05-3d-split-dimension-by-rounded-ratio-only', prop='C05', clause='D1', edits=[('include/oneapi/tbb/blocked_range3d.h', '        return !first.is_divisible() || (second.is_divisible() &&\n               first.size()*double(second.grainsize()) < second.size()*double(first.grainsize()));', '        return first.size()*double(second.grainsize()) < second.size()*double(first.grainsize());')]),
    dict(name='c05-nd-comparator-by-rounded-ratio-only', prop='C05', clause='D1', edits=[('include/oneapi/tbb/blocked_nd_range.h', '            return second.is_divisible() && (!first.is_divisible() ||\n                   first.size() * double(second.grainsize()) < second.size() * double(first.grainsize()));', '            return (first.size() * double(second.grainsize()) < second.size() * double(first.grainsize()));')]),
    dict(name='c05-nd-comparator-ranks-a-non-divisible-dimension-up', prop='C05', clause='D1', edits=[('include/oneapi/tbb/blocked_nd_range.h', '            return second.is_divisible() && (!first.is_divisible() ||\n                   first.size() * double(second.grainsize()) < second.size() * double(first.grainsize()));', '            return !first.is_divisible() ||\n                   first.size() * double(second.grainsize()) < second.size() * double(first.grainsize());')]),
    # ---------------------------------------------------------------- C06
    dict(name='c06-join-swapped', prop='C06', clause='D1', edits=[
        (PR_H, "            left_body.join(*zombie_space.begin());", "            zombie_space.begin()->join(left_body);")]),
    dict(name='c06-seed4-ring-index-masked', prop='C06', clause='D7', edits=[(PT_H,
        "            my_head = (my_head + 1) % MaxCapacity;", "            my_head = (my_head + 1) & (MaxCapacity - 1);")]),
    dict(name='c06-det-join-swapped', prop='C06', clause='D1', edits=[
        (PR_H, "            left_body.join(right_body);", "            right_body.join(left_body);")]),
    dict(name='c06-lambda-join-swapped', prop='C06', clause='D1', edits=[
        (PR_H, "        my_value = tbb::detail::invoke(my_reduction, std::move(my_value), std::move(rhs.my_value));",
         "        my_value = tbb::detail::invoke(my_reduction, std::move(rhs.my_value), std::move(my_value));")]),
    dict(name='c06-lambda-body-drops-value', prop='C06', clause='D1', edits=[
        (PR_H, "        my_value = tbb::detail::invoke(my_real_body, range, std::move(my_value));",
         "        my_value = tbb::detail::invoke(my_real_body, range, Value(my_identity_element));")]),
    dict(name='c06-lazy-split-left-child', prop='C06', clause='D2', edits=[
        (PR_H, "    if( is_right_child && my_parent->m_ref_count.load(std::memory_order_acquire) == 2 ) {",
         "    if( my_parent->m_ref_count.load(std::memory_order_acquire) == 2 ) {")]),
    dict(name='c06-lazy-split-relaxed', prop='C06', clause='D2', edits=[
        (PR_H, "    if( is_right_child && my_parent->m_ref_count.load(std::memory_order_acquire) == 2 ) {",
         "    if( is_right_child && my_parent->m_ref_count.load(std::memory_order_relaxed) == 2 ) {")]),
    dict(name='c06-det-accepts-auto', prop='C06', clause='D3', edits=[
        (PR_H, "//! Parallel iteration with deterministic reduction and static partitioner.\n/** @ingroup algorithms **/\ntemplate<typename Range, typename Body>\n    __TBB_requires(tbb_range<Range> && parallel_reduce_body<Body, Range>)\nvoid parallel_deterministic_reduce( const Range& range, Body& body, const static_partitioner& partitioner ) {",
         "template<typename Range, typename Body>\n    __TBB_requires(tbb_range<Range> && parallel_reduce_body<Body, Range>)\nvoid parallel_deterministic_reduce(const Range& range, Body& body, const auto_partitioner&) {\n    parallel_reduce(range, body, auto_partitioner());\n}\n//! Parallel iteration with deterministic reduction and static partitioner.\n/** @ingroup algorithms **/\ntemplate<typename Range, typename Body>\n    __TBB_requires(tbb_range<Range> && parallel_reduce_body<Body, Range>)\nvoid parallel_deterministic_reduce( const Range& range, Body& body, const static_partitioner& partitioner ) {")]),
    dict(name='c06-scan-final-twice', prop='C06', clause='D4', edits=[
        ('include/oneapi/tbb/parallel_scan.h', "        if( m_is_final )\n            m_body(m_range, final_scan_tag());\n        else if( m_sum_slot )",
         "        if( m_is_final )\n            m_body(m_range, final_scan_tag());\n        if( m_sum_slot )")]),
    dict(name='c06-sort-direct-write', prop='C06', clause='D5', edits=[
        ('include/oneapi/tbb/parallel_sort.h', "        if( m != 0 ) std::iter_swap(array, array + m);", "        if( m != 0 ) array[0] = array[m];")]),
    dict(name='c06-seed3-scan-summary-published-before-the-body-ran', prop='C06', clause='D4', edits=[('include/oneapi/tbb/parallel_scan.h',
        """        if( m_is_final )
            m_body(m_range, final_scan_tag());
        else if( m_sum_slot )
            m_body(m_range, pre_scan_tag());
        if( m_sum_slot )
            *m_sum_slot = &m_body.get();""", """        if( m_sum_slot )
            *m_sum_slot = &m_body.get();
        if( m_is_final )
            m_body(m_range, final_scan_tag());
        else if( m_sum_slot )
            m_body(m_range, pre_scan_tag());""")]),
    dict(name='c06-simple-partition-stops-splitting-by-thread-count', prop='C06', clause='D3', edits=[('include/oneapi/tbb/partitioner.h',
        """        split_type split_obj = split(); // start.offer_work accepts split_type as reference
        while( range.is_divisible() )
            start.offer_work( split_obj, ed );""", """        split_type split_obj = split(); // start.offer_work accepts split_type as reference
        std::size_t budget = get_initial_auto_partitioner_divisor() * 64;
        while( range.is_divisible() && budget-- )
            start.offer_work( split_obj, ed );""")]),
    # ---------------------------------------------------------------- C07
    dict(name='c07-next-token-unlocked', prop='C07', clause='D1', edits=[
        (PP_CPP, "        task_info wakee;\n        {\n            spin_mutex::scoped_lock lock( array_mutex );\n            // Wake the next task", "        task_info wakee;\n        {\n            // Wake the next task")]),
    dict(name='c07-put-token-late-lock', prop='C07', clause='D1', edits=[
        (PP_CPP, "        info.is_valid = true;\n        spin_mutex::scoped_lock lock( array_mutex );\n        Token token;\n        if( is_ordered ) {\n            if( !info.my_token_ready ) {\n                info.my_token = high_token++;\n                info.my_token_ready = true;\n            }\n            token = info.my_token;\n        } else\n            token = high_token++;",
         "        info.is_valid = true;\n        Token token;\n        if( is_ordered ) {\n            if( !info.my_token_ready ) {\n                info.my_token = high_token++;\n                info.my_token_ready = true;\n            }\n            token = info.my_token;\n        } else\n            token = high_token++;\n        spin_mutex::scoped_lock lock( array_mutex );")]),
    dict(name='c07-skip-next-token-when-null', prop='C07', clause='D2', edits=[
        (PP_CPP, "        if( my_filter->is_serial() )\n            my_filter->my_input_buffer->try_to_spawn_task_for_next_token(*this, ed);",
         "        if( my_filter->is_serial() && my_object )\n            my_filter->my_input_buffer->try_to_spawn_task_for_next_token(*this, ed);")]),
    dict(name='c07-buffered-task-continues', prop='C07', clause='D2', edits=[
        (PP_CPP, "                my_filter = nullptr; // To prevent deleting my_object twice if exception occurs\n                return false;",
         "                return true;")]),
    dict(name='c07-spawn-without-token', prop='C07', clause='D3', edits=[
        (PP_CPP, "        if( (my_pipeline.input_tokens.fetch_sub(1, std::memory_order_release)) > 1 ) {", "        if( (my_pipeline.input_tokens.fetch_sub(1, std::memory_order_release)) > 0 ) {")]),
    dict(name='c07-recycle-always', prop='C07', clause='D3', edits=[
        (PP_CPP, "        if( ntokens_avail>0  // Only recycle if there is one available token\n                || my_pipeline.end_of_input.load(std::memory_order_relaxed) ) {",
         "        if( my_pipeline.end_of_input.load(std::memory_order_relaxed) ) {")]),
    dict(name='c07-ctor-no-reserve', prop='C07', clause='D4', edits=[
        (PP_CPP, "        my_at_start(false)\n    {\n        my_pipeline.wait_ctx.reserve();\n    }", "        my_at_start(false)\n    {\n    }")]),
    dict(name='c07-execute-no-finalize', prop='C07', clause='D4', edits=[
        (PP_CPP, "        if(!execute_filter(ed)) {\n            finalize(ed);\n            return nullptr;\n        }", "        if(!execute_filter(ed)) {\n            return nullptr;\n        }")]),
    dict(name='c07-seed3-token-taken-before-the-ordered-stamp', prop='C07', clause='D3', edits=[(PP_CPP, """                if( my_filter->is_ordered() ) {
                    my_token = my_filter->my_input_buffer->get_ordered_token();
                    my_token_ready = true;
                }
                if( !my_filter->next_filter_in_pipeline ) { // we're only filter in pipeline
                    reset();
                    return true;
                } else {
                    try_spawn_stage_task(ed);
                }""", """                if( !my_filter->next_filter_in_pipeline ) { // we're only filter in pipeline
                    reset();
                    return true;
                }
                try_spawn_stage_task(ed);
                if( my_filter->is_ordered() ) {
                    my_token = my_filter->my_input_buffer->get_ordered_token();
                    my_token_ready = true;
                }""")]),
    # ---------------------------------------------------------------- C08
    dict(name='c08-trylock-writer-mask', prop='C08', clause='D2', edits=[
        (SRW_H, "        state_type s = m_state.load(std::memory_order_relaxed);\n        if (!(s & BUSY)) { // no readers, no writers; mask is 1..1101\n            if (m_state.compare_exchange_strong(s, WRITER)) {",
         "        state_type s = m_state.load(std::memory_order_relaxed);\n        if (!(s & WRITER)) { // no readers, no writers; mask is 1..1101\n            if (m_state.compare_exchange_strong(s, WRITER)) {")]),
    dict(name='c08-try_lock_shared-no-undo', prop='C08', clause='D2', edits=[
        (SRW_H, "                return true; // successfully stored increased number of readers\n            }\n            // writer got there first, undo the increment\n            m_state -= ONE_READER;",
         "                return true; // successfully stored increased number of readers\n            }\n            // writer got there first, undo the increment")]),
    dict(name='c08-spin-unlock-relaxed', prop='C08', clause='D1', edits=[
        ('include/oneapi/tbb/spin_mutex.h', "        m_flag.store(false, std::memory_order_release);", "        m_flag.store(false, std::memory_order_relaxed);")]),
    dict(name='c08-queuing-handoff-relaxed', prop='C08', clause='D1', edits=[
        ('include/oneapi/tbb/queuing_mutex.h', "            m_next.load(std::memory_order_acquire)->m_going.store(1U, std::memory_order_release);",
         "            m_next.load(std::memory_order_acquire)->m_going.store(1U, std::memory_order_relaxed);")]),
    dict(name='c08-qrw-grant-relaxed', prop='C08', clause='D1', edits=[
        (QRW_CPP, "                tricky_pointer::load(s.my_next, std::memory_order_relaxed)->my_going.store(1U, std::memory_order_release);",
         "                tricky_pointer::load(s.my_next, std::memory_order_relaxed)->my_going.store(1U, std::memory_order_relaxed);")]),
    dict(name='c08-qrw-enqueue-relaxed', prop='C08', clause='D1', edits=[
        (QRW_CPP, "        queuing_rw_mutex::scoped_lock* predecessor = m.q_tail.exchange(&s, std::memory_order_acq_rel);",
         "        queuing_rw_mutex::scoped_lock* predecessor = m.q_tail.exchange(&s, std::memory_order_acquire);")]),
    dict(name='c08-rw-unlock-store', prop='C08', clause='D1', edits=[
        (SRW_H, "        call_itt_notify(releasing, this);\n        m_state &= READERS;", "        call_itt_notify(releasing, this);\n        m_state.store(m_state.load(std::memory_order_relaxed) & READERS, std::memory_order_release);")]),
    dict(name='c08-upgrade-true-after-slow', prop='C08', clause='D4', edits=[
        (SRW_H, "        // Slow reacquire\n        unlock_shared();\n        lock();\n        return false;", "        // Slow reacquire\n        unlock_shared();\n        lock();\n        return true;")]),
    dict(name='c08-upgrade-false-without-lock', prop='C08', clause='D4', edits=[
        ('include/oneapi/tbb/rw_mutex.h', "        // Slow reacquire\n        unlock_shared();\n        lock();\n        return false;", "        // Slow reacquire\n        unlock_shared();\n        return false;")]),
    dict(name='c08-trylock-spins', prop='C08', clause='D3', edits=[
        ('include/oneapi/tbb/spin_mutex.h', "        bool result = !m_flag.exchange(true);", "        atomic_backoff b; b.pause();\n        bool result = !m_flag.exchange(true);")]),
    dict(name='c08-scoped-try-records-always', prop='C08', clause='D3', edits=[
        ('include/oneapi/tbb/detail/_scoped_lock.h', "        bool succeed = m.try_lock();\n        if (succeed) {\n            m_mutex = &m;\n        }", "        bool succeed = m.try_lock();\n        m_mutex = &m;")]),
    dict(name='c08-rtm-try-blocks', prop='C08', clause='D3', edits=[
        ('src/tbb/rtm_mutex.cpp', "                if(m.m_flag.load(std::memory_order_acquire)) {\n                    if(only_speculate) return;", "                if(m.m_flag.load(std::memory_order_acquire)) {")]),
    dict(name='c08-lock-copyable', prop='C08', clause='D5', edits=[
        ('include/oneapi/tbb/detail/_scoped_lock.h', "    unique_scoped_lock(const unique_scoped_lock&) = delete;", "    unique_scoped_lock(const unique_scoped_lock&) = default;")]),
    dict(name='c08-one-reader-2', prop='C08', clause='D5', edits=[
        (SRW_H, "    static constexpr state_type ONE_READER = 4;", "    static constexpr state_type ONE_READER = 2;")]),
    dict(name='c08-dtor-no-release', prop='C08', clause='D5', edits=[
        ('include/oneapi/tbb/detail/_scoped_lock.h', "    ~rw_scoped_lock() {\n        if (m_mutex) {\n            release();\n        }\n    }", "    ~rw_scoped_lock() {\n    }")]),
    dict(name='c08-qtail-store', prop='C08', clause='D6', edits=[
        ('include/oneapi/tbb/queuing_mutex.h', "                if (m_mutex->q_tail.compare_exchange_strong(expected, nullptr)) {", "                if (m_mutex->q_tail.load() == expected && (m_mutex->q_tail.store(nullptr), true)) {")]),
    dict(name='c08-qrw-internal-lock-leak', prop='C08', clause='D1', edits=[
        (QRW_CPP, "                next->my_going.store(1U, std::memory_order_release);\n                unblock_or_wait_on_internal_lock(s, get_flag(tmp));", "                next->my_going.store(1U, std::memory_order_release);\n                (void)tmp;")]),
    dict(name='c08-seed3-scan-front-steps-prev', prop='C08', clause='D7', edits=[('src/tbb/concurrent_monitor.h',
        """            for (base_node* n = my_waitset.last(); n != end; n = next) {
                next = n->prev;""", """            for (base_node* n = my_waitset.front(); n != end; n = next) {
                next = n->prev;""")]),
    dict(name='c08-notify-one-predicate-ignores-address', prop='C08', clause='D7', edits=[('src/tbb/address_waiter.cpp',
        """    auto predicate = [address] (address_context ctx) {
        return ctx.my_address == address;
    };

    waiter.notify_one_relaxed(predicate);""", """    auto predicate = [address] (address_context ctx) {
        return ctx.my_address != nullptr && address != nullptr;
    };

    waiter.notify_one_relaxed(predicate);""")]),
    # ---------------------------------------------------------------- C09
    dict(name='c09-trypop-no-empty-test', prop='C09', clause='D1', edits=[
        (CQ_H, "            if (static_cast<std::ptrdiff_t>(queue.tail_counter.load(std::memory_order_relaxed) - ticket) <= 0) { // queue is empty\n                // Queue is empty\n                return { false, ticket };\n            }",
         "")]),
    dict(name='c09-push-ticket-load-store', prop='C09', clause='D1', edits=[
        (CQ_H, "        ticket_type k = my_queue_representation->tail_counter++;", "        ticket_type k = my_queue_representation->tail_counter.load(); my_queue_representation->tail_counter.store(k + 1);")]),
    dict(name='c09-guard-after-construct', prop='C09', clause='D2', edits=[
        (CQB_H, """        auto value_guard = make_raii_guard([&] {
            ++base.n_invalid_entries;
            d1::call_itt_notify(d1::releasing, &tail_counter);
            tail_counter.fetch_add(queue_rep_type::n_queue);
        });

        page_allocator_traits::construct(page_allocator, &(*p)[index], std::forward<Args>(args)...);""",
         """        page_allocator_traits::construct(page_allocator, &(*p)[index], std::forward<Args>(args)...);
        auto value_guard = make_raii_guard([&] {
            ++base.n_invalid_entries;
            d1::call_itt_notify(d1::releasing, &tail_counter);
            tail_counter.fetch_add(queue_rep_type::n_queue);
        });
""")]),
    dict(name='c09-push-no-advance', prop='C09', clause='D2', edits=[
        (CQB_H, "        value_guard.dismiss();\n        tail_counter.fetch_add(queue_rep_type::n_queue);", "        value_guard.dismiss();")]),
    dict(name='c09-finalizer-after-move', prop='C09', clause='D3', edits=[
        (CQB_H, """            micro_queue_pop_finalizer<self_type, value_type, page_allocator_type> finalizer(*this, page_allocator,
                k + queue_rep_type::n_queue, valid_page && index == items_per_page - 1 ? p : nullptr );
            if (valid_page && (p->mask.load(std::memory_order_relaxed) & (std::uintptr_t(1) << index))) {
                success = true;
                assign_and_destroy_item(dst, *p, index);
            } else {
                --base.n_invalid_entries;
            }""", """            if (valid_page && (p->mask.load(std::memory_order_relaxed) & (std::uintptr_t(1) << index))) {
                success = true;
                assign_and_destroy_item(dst, *p, index);
            } else {
                --base.n_invalid_entries;
            }
            micro_queue_pop_finalizer<self_type, value_type, page_allocator_type> finalizer(*this, page_allocator,
                k + queue_rep_type::n_queue, valid_page && index == items_per_page - 1 ? p : nullptr );""")]),
    dict(name='c09-pop-ignores-mask', prop='C09', clause='D3', edits=[
        (CQB_H, "            if (valid_page && (p->mask.load(std::memory_order_relaxed) & (std::uintptr_t(1) << index))) {\n                success = true;\n                assign_and_destroy_item(dst, *p, index);\n            } else {\n                --base.n_invalid_entries;\n            }",
         "            if (valid_page) {\n                success = true;\n                assign_and_destroy_item(dst, *p, index);\n            }")]),
    dict(name='c09-link-page-unlocked', prop='C09', clause='D4', edits=[
        (CQB_H, "        if (p) {\n            spin_mutex::scoped_lock lock( page_mutex );\n            padded_page* q = tail_page.load(std::memory_order_relaxed);", "        if (p) {\n            padded_page* q = tail_page.load(std::memory_order_relaxed);")]),
    dict(name='c09-phi-4', prop='C09', clause='D6', edits=[
        (CQB_H, "    static constexpr size_type phi = 3;", "    static constexpr size_type phi = 4;")]),
    dict(name='c09-bounded-push-abort-leaks-ticket', prop='C09', clause='D2', edits=[
        (CQ_H, "            }).on_exception( [&] {\n                my_queue_representation->choose(ticket).abort_push(ticket, *my_queue_representation, my_allocator);\n            });",
         "            }).on_exception( [&] {\n            });")]),
    dict(name='c09-seed3-invalid-entry-bypasses-the-finalizer', prop='C09', clause='D3', edits=[('include/oneapi/tbb/detail/_concurrent_queue_base.h', """        bool success = false;
        {
            page_allocator_type page_allocator(allocator);
            // After a failed page allocation the page list ends in an invalid page (see invalidate_page):
            // the entry of the push that failed does not exist at all.
            bool valid_page = is_valid_page(p);
            micro_queue_pop_finalizer<self_type, value_type, page_allocator_type> finalizer(*this, page_allocator,
                k + queue_rep_type::n_queue, valid_page && index == items_per_page - 1 ? p : nullptr );
            if (valid_page && (p->mask.load(std::memory_order_relaxed) & (std::uintptr_t(1) << index))) {
                success = true;
                assign_and_destroy_item(dst, *p, index);
            } else {
                --base.n_invalid_entries;
            }
        }
        return success;""", """        if (!is_valid_page(p) || !(p->mask.load(std::memory_order_relaxed) & (std::uintptr_t(1) << index))) {
            --base.n_invalid_entries;
            head_counter.store(k + queue_rep_type::n_queue, std::memory_order_release);
            return false;
        }
        page_allocator_type page_allocator(allocator);
        micro_queue_pop_finalizer<self_type, value_type, page_allocator_type> finalizer(*this, page_allocator,
            k + queue_rep_type::n_queue, index == items_per_page - 1 ? p : nullptr );
        assign_and_destroy_item(dst, *p, index);
        return true;""")]),
    dict(name='c09-pop-dereferences-sentinel-page', prop='C09', clause='D3', edits=[('include/oneapi/tbb/detail/_concurrent_queue_base.h',
        "            if (valid_page && (p->mask.load(std::memory_order_relaxed) & (std::uintptr_t(1) << index))) {", "            if (p->mask.load(std::memory_order_relaxed) & (std::uintptr_t(1) << index)) {")]),
    dict(name='c09-infinite-capacity-in-signed-type', prop='C09', clause='D6', edits=[(CQ_H,
        "    static constexpr std::ptrdiff_t infinite_capacity = std::ptrdiff_t(~std::size_t(0) / 2);", "    static constexpr std::ptrdiff_t infinite_capacity = std::ptrdiff_t(~size_type(0) / 2);")]),
    dict(name='c09-aborted-push-hands-ticket-back', prop='C09', clause='D1', edits=[(CQ_H,
        "                my_queue_representation->choose(ticket).abort_push(ticket, *my_queue_representation, my_allocator);", "                my_queue_representation->tail_counter--;")]),
    # ---------------------------------------------------------------- C10
    dict(name='c10-exclude-reader-bucket', prop='C10', clause='D1', edits=[
        (CHM_H, "            bucket_accessor b( this, hash & mask, /*writer=*/true );", "            bucket_accessor b( this, hash & mask );")]),
    dict(name='c10-erase-no-upgrade', prop='C10', clause='D1', edits=[
        (CHM_H, "            } else if (!b.is_writer() && !b.upgrade_to_writer()) {\n                if (this->check_mask_race(hash, mask)) // contended upgrade, check mask\n                    goto restart;\n                goto search;\n            }",
         "            }")]),
    dict(name='c10-erase-no-research', prop='C10', clause='D1', edits=[
        (CHM_H, "                if (this->check_mask_race(hash, mask)) // contended upgrade, check mask\n                    goto restart;\n                goto search;\n            }",
         "                if (this->check_mask_race(hash, mask)) // contended upgrade, check mask\n                    goto restart;\n            }")]),
    dict(name='c10-insert-no-mask-check', prop='C10', clause='D2', edits=[
        (CHM_H, "                    if( this->check_mask_race(h, m) )\n                        goto restart; // b.release() is done in ~b().\n                    // insert and set flag to grow the container",
         "                    // insert and set flag to grow the container")]),
    dict(name='c10-find-no-mask-check', prop='C10', clause='D2', edits=[
        (CHM_H, "                    if( this->check_mask_race( h, m ) )\n                        goto restart; // b.release() is done in ~b(). TODO: replace by continue\n                    return false;",
         "                    return false;")]),
    dict(name='c10-erase-no-item-lock', prop='C10', clause='D3', edits=[
        (CHM_H, "        {\n            typename node::scoped_type item_locker( erase_node->mutex, /*write=*/true );\n        }\n", "")]),
    dict(name='c10-erase-item-lock-read', prop='C10', clause='D3', edits=[
        (CHM_H, "            typename node::scoped_type item_locker( erase_node->mutex, /*write=*/true );", "            typename node::scoped_type item_locker( erase_node->mutex, /*write=*/false );")]),
    dict(name='c10-exclude-no-upgrade', prop='C10', clause='D3', edits=[
        (CHM_H, "        if (!item_accessor.is_writer()) { // need to get exclusive lock\n            item_accessor.upgrade_to_writer(); // return value means nothing here\n        }\n", "")]),
    dict(name='c10-find-accessor-read-lock', prop='C10', clause='D4', edits=[
        (CHM_H, "    bool find( accessor &result, const Key &key ) {\n        result.release();\n        return lookup</*insert*/false>(key, nullptr, &result, /*write=*/true, &do_not_allocate_node);",
         "    bool find( accessor &result, const Key &key ) {\n        result.release();\n        return lookup</*insert*/false>(key, nullptr, &result, /*write=*/false, &do_not_allocate_node);")]),
    dict(name='c10-const-accessor-mutable', prop='C10', clause='D4', edits=[
        (CHM_H, "        const_reference operator*() const {\n            __TBB_ASSERT( my_node, \"attempt to dereference empty accessor\" );\n            return my_node->value();\n        }\n\n        // Return pointer to associated value in hash table.\n        const_pointer operator->() const {",
         "        reference operator*() const {\n            __TBB_ASSERT( my_node, \"attempt to dereference empty accessor\" );\n            return my_node->value();\n        }\n\n        // Return pointer to associated value in hash table.\n        pointer operator->() const {")]),
    dict(name='c10-insert-always-true', prop='C10', clause='D5', edits=[
        (CHM_H, "        exists:\n            if( !result ) goto check_growth;", "        exists:\n            if (OpInsert) return_value = true;\n            if( !result ) goto check_growth;")]),
    dict(name='c10-rehash-unmarked', prop='C10', clause='D2', edits=[
        (CHM_H, "        b_new->node_list.store(reinterpret_cast<node_base*>(empty_rehashed_flag), std::memory_order_release); // mark rehashed\n        hashcode_type mask = (hashcode_type(1) << tbb::detail::log2(hash)) - 1; // get parent mask from the topmost bit\n        bucket_accessor b_old( this, hash & mask );",
         "        hashcode_type mask = (hashcode_type(1) << tbb::detail::log2(hash)) - 1; // get parent mask from the topmost bit\n        bucket_accessor b_old( this, hash & mask );\n        b_new->node_list.store(reinterpret_cast<node_base*>(empty_rehashed_flag), std::memory_order_release); // mark rehashed")]),
    dict(name='c10-seed3-item-lock-waited-for-under-bucket-lock', prop='C10', clause='D3', edits=[(CHM_H, """            this->my_size--;
        }
        {
            typename node::scoped_type item_locker( erase_node->mutex, /*write=*/true );""", """            this->my_size--;
            typename node::scoped_type item_locker( erase_node->mutex, /*write=*/true );""")]),
    dict(name='c10-seed5-move-insert-keeps-old-element-locked', prop='C10', clause='D4', edits=[
        (CHM_H, "    bool generic_move_insert( Accessor && result, value_type && value ) {\n        result.release();\n", "    bool generic_move_insert( Accessor && result, value_type && value ) {\n"),
        (CHM_H, "    bool insert( const_accessor &result, value_type && value ) {\n        return generic_move_insert(result, std::move(value));",
         "    bool insert( const_accessor &result, value_type && value ) {\n        result.release();\n        return generic_move_insert(result, std::move(value));")]),
    dict(name='c10-insert-key-accessor-not-released', prop='C10', clause='D4', edits=[
        (CHM_H, "    bool insert( accessor &result, const Key &key ) {\n        result.release();\n", "    bool insert( accessor &result, const Key &key ) {\n")]),
    dict(name='c10-find-const-accessor-not-released', prop='C10', clause='D4', edits=[
        (CHM_H, "    bool find( const_accessor &result, const Key &key ) const {\n        result.release();\n", "    bool find( const_accessor &result, const Key &key ) const {\n")]),
    dict(name='c10-emplace-releases-after-lookup', prop='C10', clause='D4', edits=[
        (CHM_H, "    bool generic_emplace( Accessor && result, Args &&... args ) {\n        result.release();\n", "    bool generic_emplace( Accessor && result, Args &&... args ) {\n        if (this->my_size.load(std::memory_order_relaxed) != 0) result.release();\n")]),
    dict(name='c10-growth-after-insert-unguarded', prop='C10', clause='D5', edits=[(CHM_H, '#if TBB_USE_EXCEPTIONS\n            try\n#endif\n            {\n                this->enable_segment( grow_segment );\n            }\n#if TBB_USE_EXCEPTIONS\n            catch(...) {}\n#endif\n', '            this->enable_segment( grow_segment );\n')]),
    dict(name='c10-seed6-accessor-remembers-the-masked-hash', prop='C10', clause='D2', edits=[(CHM_H, '        result->my_hash = h;\n', '        result->my_hash = h & m; // exclude() only needs it to locate the bucket\n')]),
    dict(name='c10-accessor-remembers-a-masked-hash-through-a-local', prop='C10', clause='D2', edits=[(CHM_H, '        result->my_hash = h;\n', '        { const hashcode_type reduced = h & m; result->my_hash = reduced; }\n')]),
    dict(name='c10-rehash-handler-leaves-the-mark', prop='C10', clause='D2', edits=[(CHM_H, '            b_new->node_list.store(reinterpret_cast<node_base*>(rehash_req_flag), std::memory_order_release);\n            throw;\n', '            throw;\n')]),
    # ---------------------------------------------------------------- C11
    dict(name='c11-int-delta-regression', prop='C11', clause='D6', edits=[
        (CV_H, "        if (old_size < new_size) {\n            return internal_grow(old_size, new_size, args...);\n        }",
         "        int delta = static_cast<int>(new_size) - static_cast<int>(old_size);\n        if (delta > 0) {\n            return internal_grow(old_size, new_size, args...);\n        }")]),
    dict(name='c11-unsigned-delta', prop='C11', clause='D6', edits=[
        (CV_H, "        if (old_size < new_size) {\n            return internal_grow(old_size, new_size, args...);\n        }",
         "        unsigned delta = static_cast<unsigned>(new_size - old_size);\n        if (old_size < new_size && delta != 0) {\n            return internal_grow(old_size, new_size, args...);\n        }")]),
    dict(name='c11-grow_by-load-store', prop='C11', clause='D1', edits=[
        (CV_H, "        size_type start_idx = this->my_size.fetch_add(delta);", "        size_type start_idx = this->my_size.load(); this->my_size.store(start_idx + delta);")]),
    dict(name='c11-at-least-can-shrink', prop='C11', clause='D1', edits=[
        (CV_H, "        while (old_size < new_size && !this->my_size.compare_exchange_weak(old_size, new_size))", "        while (!this->my_size.compare_exchange_weak(old_size, new_size))")]),
    dict(name='c11-segment-store-relaxed', prop='C11', clause='D3', edits=[
        (CV_H, "                    table[seg_index].store(new_segment, std::memory_order_release);\n                });", "                    table[seg_index].store(new_segment, std::memory_order_relaxed);\n                });")]),
    dict(name='c11-no-failure-tag', prop='C11', clause='D3', edits=[
        (CV_H, "                } ).on_completion( [&] {\n                    table[seg_index].store(new_segment, std::memory_order_release);\n                });",
         "                } ).on_completion( [&] {\n                });\n                table[seg_index].store(new_segment, std::memory_order_release);")]),
    dict(name='c11-enable-segment-store', prop='C11', clause='D3', edits=[
        ('include/oneapi/tbb/detail/_segment_table.h', "            if (!table[seg_index].compare_exchange_strong(disabled_segment, new_segment - segment_base(seg_index))) {",
         "            if (table[seg_index].load() != nullptr || (table[seg_index].store(new_segment - segment_base(seg_index)), false)) {")]),
    dict(name='c11-emplace-guard-late', prop='C11', clause='D4', edits=[
        (CV_H, "        segment_table_allocator_traits::construct(base_type::get_allocator(), element_address, std::forward<Args>(args)...);\n        value_guard.dismiss();",
         "        value_guard.dismiss();\n        segment_table_allocator_traits::construct(base_type::get_allocator(), element_address, std::forward<Args>(args)...);")]),
    dict(name='c11-growth-compacts', prop='C11', clause='D2', edits=[
        (CV_H, "        size_type start_idx = this->my_size.fetch_add(delta);\n        size_type end_idx = start_idx + delta;",
         "        size_type start_idx = this->my_size.fetch_add(delta);\n        size_type end_idx = start_idx + delta;\n        if (end_idx > 1000000) shrink_to_fit();")]),
    dict(name='c11-segment-base-off', prop='C11', clause='D5', edits=[
        ('include/oneapi/tbb/detail/_segment_table.h', "        return size_type(1) << index & ~size_type(1);", "        return size_type(1) << index & ~size_type(3);")]),
    dict(name='c11-abandoned-segments-left-pending', prop='C11', clause='D9', edits=[(CV_H, '        mark_abandoned_segments(table, idx, end_idx);\n        for (size_type i = idx; i < end_idx; ++i) {', '        for (size_type i = idx; i < end_idx; ++i) {')]),
    dict(name='c11-table-wait-ignores-failure-flag', prop='C11', clause='D9', edits=[(CV_H,
        """            while (this->get_table() == this->my_embedded_table) {
                if (this->my_segment_table_allocation_failed.load(std::memory_order_relaxed)) {
                    throw_exception(exception_id::bad_alloc);
                }
                backoff.pause();
            }""", """            while (this->get_table() == this->my_embedded_table) {
                backoff.pause();
            }""")]),
    dict(name='c11-seed3-failure-tag-checked-only-after-enable', prop='C11', clause='D8', edits=[('include/oneapi/tbb/detail/_segment_table.h', """                enable_segment(segment, table, seg_index, index);
            }
            // Check if an exception was thrown during segment allocation
            if (segment == segment_allocation_failure_tag) {
                throw_exception(exception_id::bad_alloc);
            }""", """                enable_segment(segment, table, seg_index, index);
                // Check if an exception was thrown during segment allocation
                if (segment == segment_allocation_failure_tag) {
                    throw_exception(exception_id::bad_alloc);
                }
            }""")]),
    dict(name='c11-seed5-long-table-copy-skips-the-straddling-segment', prop='C11', clause='D2', edits=[(CV_H, '        for (segment_index_type i = 0; this->segment_base(i) < start_index; ++i) {\n            spin_wait_while_eq(embedded_table[i], segment_type(nullptr));', '        const segment_index_type start_segment = this->segment_index_of(start_index);\n        for (segment_index_type i = 0; i < start_segment; ++i) {\n            spin_wait_while_eq(embedded_table[i], segment_type(nullptr));')]),
    dict(name='c11-long-table-copy-waits-one-segment-short', prop='C11', clause='D2', edits=[(CV_H, '        for (segment_index_type i = 0; this->segment_base(i) < start_index; ++i) {\n            spin_wait_while_eq(embedded_table[i], segment_type(nullptr));', '        for (segment_index_type i = 0; this->segment_base(i + 1) < start_index; ++i) {\n            spin_wait_while_eq(embedded_table[i], segment_type(nullptr));')]),
    # ---------------------------------------------------------------- C12
    dict(name='c12-cas-before-set_next', prop='C12', clause='D1', edits=[
        (CUB_H, "        new_node->set_next(current_next_node);\n        return prev_node->try_set_next(current_next_node, new_node);",
         "        bool r = prev_node->try_set_next(current_next_node, new_node);\n        new_node->set_next(current_next_node);\n        return r;")]),
    dict(name='c12-retry-stale', prop='C12', clause='D1', edits=[
        (CUB_H, "        while (!try_insert(prev, new_node, curr)) {\n            search_result = search_after(prev, order_key, key);\n            if (search_result.second) {\n                return internal_insert_return_type{ new_node, search_result.first, false };\n            }\n            curr = search_result.first;\n        }",
         "        while (!try_insert(prev, new_node, curr)) {\n            curr = prev->next();\n        }")]),
    dict(name='c12-try_set_next-store', prop='C12', clause='D1', edits=[
        (CUB_H, "        return my_next.compare_exchange_strong(expected_next, new_next);", "        if (my_next.load() != expected_next) return false; my_next.store(new_next); return true;")]),
    dict(name='c12-size-before-link', prop='C12', clause='D1', edits=[
        (CUB_H, "        value_node_ptr new_node = create_insert_node(order_key);\n        node_ptr curr = search_result.first;\n",
         "        value_node_ptr new_node = create_insert_node(order_key);\n        node_ptr curr = search_result.first;\n        my_size.fetch_add(1);\n")]),
    dict(name='c12-bucket-store-before-dummy', prop='C12', clause='D2', edits=[
        (CUB_H, "        node_ptr dummy_node = insert_dummy_node(parent, split_order_key_dummy(bucket));",
         "        my_segments[bucket].store(parent, std::memory_order_release);\n        node_ptr dummy_node = insert_dummy_node(parent, split_order_key_dummy(bucket));")]),
    dict(name='c12-dummy-loser-leaks', prop='C12', clause='D2', edits=[
        (CUB_H, "                destroy_node(dummy_node);\n                return next_node;", "                return next_node;")]),
    dict(name='c12-skiplist-upper-first', prop='C12', clause='D3', edits=[
        (CSL_H, "            new_node->set_next(0, next);\n            if (!prev->atomic_next(0).compare_exchange_strong(next, new_node)) {\n                continue;\n            }",
         "            new_node->set_next(0, next);\n            if (new_height > 1) { node_ptr n1 = curr_nodes[1]; new_node->set_next(1, n1); prev_nodes[1]->atomic_next(1).compare_exchange_strong(n1, new_node); }\n            if (!prev->atomic_next(0).compare_exchange_strong(next, new_node)) {\n                continue;\n            }")]),
    dict(name='c12-skiplist-no-found-test', prop='C12', clause='D3', edits=[
        (CSL_H, "                if (found(next, get_key(new_node))) {\n                    return std::pair<iterator, bool>(iterator(next), false);\n                }", "")]),
    dict(name='c12-skiplist-set_next-once', prop='C12', clause='D3', edits=[
        (CSL_H, "                    new_node->set_next(level, next);\n                    __TBB_ASSERT(new_node->height() > level, \"Internal structure break\");", "                    __TBB_ASSERT(new_node->height() > level, \"Internal structure break\");")]),
    dict(name='c12-skiplist-keep-rejected', prop='C12', clause='D3', edits=[
        (CSL_H, "        if (!insert_result.second) {\n            delete_value_node(new_node);\n        }\n        return insert_result;", "        return insert_result;")]),
    dict(name='c12-seed3-rehash-installs-unrounded-count', prop='C12', clause='D5', edits=[('include/oneapi/tbb/detail/_concurrent_unordered_base.h',
        """        if (current_bucket_count < bucket_count) {
            // TODO: do we need do-while here?
            my_bucket_count.compare_exchange_strong(current_bucket_count, round_up_to_power_of_two(bucket_count));""",
        """        bucket_count = std::max(round_up_to_power_of_two(bucket_count), size_type(float(size()) / max_load_factor()));
        if (current_bucket_count < bucket_count) {
            // TODO: do we need do-while here?
            my_bucket_count.compare_exchange_strong(current_bucket_count, bucket_count);""")]),
    dict(name='c12-doubling-without-upper-bound', prop='C12', clause='D5', edits=[('include/oneapi/tbb/detail/_concurrent_unordered_base.h',
        "        if ( current_size < highest_bucket_count && (float(total_elements) / float(current_size)) > my_max_load_factor ) {",
        "        if ( (float(total_elements) / float(current_size)) > my_max_load_factor ) {")]),
    # ---------------------------------------------------------------- C13
    dict(name='c13-empty-pop-no-status', prop='C13', clause='D2', edits=[
        (CPQ_H, "            if (data.empty()) {\n                tmp->status.store(uintptr_t(FAILED), std::memory_order_release);\n            } else {", "            if (data.empty()) {\n            } else {")]),
    dict(name='c13-postponed-pop-dropped', prop='C13', clause='D2', edits=[
        (CPQ_H, "                } else { // no convenient item to pop; postpone\n                    tmp->next.store(pop_list, std::memory_order_relaxed);\n                    pop_list = tmp;\n                }", "                }")]),
    dict(name='c13-status-relaxed', prop='C13', clause='D2', edits=[
        (CPQ_H, "                    my_size.store(my_size.load(std::memory_order_relaxed) + 1, std::memory_order_relaxed);\n                    tmp->status.store(uintptr_t(SUCCEEDED), std::memory_order_release);",
         "                    my_size.store(my_size.load(std::memory_order_relaxed) + 1, std::memory_order_relaxed);\n                    tmp->status.store(uintptr_t(SUCCEEDED), std::memory_order_relaxed);")]),
    dict(name='c13-catch-no-status', prop='C13', clause='D2', edits=[
        (CPQ_H, "                catch(...) {\n                    tmp->status.store(uintptr_t(FAILED), std::memory_order_release);\n                }", "                catch(...) {\n                }")]),
    dict(name='c13-push-outside-try', prop='C13', clause='D3', edits=[
        (CPQ_H, "#if TBB_USE_EXCEPTIONS\n                try\n#endif\n                {\n                    if (tmp->type == PUSH_OP) {\n                        push_back_helper(*(tmp->elem));\n                    } else {",
         "                if (tmp->type == PUSH_OP) push_back_helper(*(tmp->elem));\n#if TBB_USE_EXCEPTIONS\n                try\n#endif\n                {\n                    if (tmp->type == PUSH_OP) {\n                    } else {")]),
    dict(name='c13-push-throws-on-any', prop='C13', clause='D3', edits=[
        (CPQ_H, "        cpq_operation op_data(value, PUSH_OP);\n        my_aggregator.execute(&op_data);\n        if (op_data.status == FAILED)\n            throw_exception(exception_id::bad_alloc);",
         "        cpq_operation op_data(value, PUSH_OP);\n        my_aggregator.execute(&op_data);\n        if (op_data.status != SUCCEEDED || data.empty())\n            throw_exception(exception_id::bad_alloc);")]),
    dict(name='c13-no-heapify', prop='C13', clause='D4', edits=[
        (CPQ_H, "        if (mark < data.size()) heapify();\n        __TBB_ASSERT(mark == data.size(), nullptr);\n        call_itt_notify(releasing, this);", "        __TBB_ASSERT(mark == data.size(), nullptr);\n        call_itt_notify(releasing, this);")]),
    dict(name='c13-aggregator-push-store', prop='C13', clause='D1', edits=[
        (AGG_H, "        do {\n            op->next.store(res, std::memory_order_relaxed);\n        } while (!pending_operations.compare_exchange_strong(res, op));",
         "        op->next.store(res, std::memory_order_relaxed);\n        pending_operations.store(op);")]),
    dict(name='c13-handler-busy-relaxed', prop='C13', clause='D1', edits=[
        (AGG_H, "        handler_busy.store(0, std::memory_order_release);", "        handler_busy.store(0, std::memory_order_relaxed);")]),
    dict(name='c13-seed3-next-read-after-status-published', prop='C13', clause='D2', edits=[(CPQ_H, """            if (data.empty()) {
                tmp->status.store(uintptr_t(FAILED), std::memory_order_release);
            } else {""", """            if (data.empty()) {
                for (; tmp; tmp = tmp->next.load(std::memory_order_relaxed))
                    tmp->status.store(uintptr_t(FAILED), std::memory_order_release);
                break;
            } else {""")]),
    # ---------------------------------------------------------------- C14
    dict(name='c14-occupy-without-limit', prop='C14', clause='D3', edits=[
        (FGN_H, "            case occupy_concurrency:\n                if (my_concurrency < my_max_concurrency) {\n                    ++my_concurrency;\n                    tmp->status.store(SUCCEEDED, std::memory_order_release);\n                } else {\n                    tmp->status.store(FAILED, std::memory_order_release);\n                }\n                break;",
         "            case occupy_concurrency:\n                ++my_concurrency;\n                tmp->status.store(SUCCEEDED, std::memory_order_release);\n                break;")]),
    dict(name='c14-handler-missing-status', prop='C14', clause='D1', edits=[
        (FGN_H, "            case rem_pred:\n                my_predecessors.remove(*(tmp->r));\n                tmp->status.store(SUCCEEDED, std::memory_order_release);\n                break;",
         "            case rem_pred:\n                my_predecessors.remove(*(tmp->r));\n                break;")]),
    dict(name='c14-handler-missing-case', prop='C14', clause='D1', edits=[
        (FG_H, "            case rel_res:  internal_release(tmp); try_forwarding = true; break;\n", "")]),
    dict(name='c14-forward-fail-no-status', prop='C14', clause='D1', edits=[
        (FG_H, "        if (this->my_reserved || !derived->is_item_valid()) {\n            op->status.store(FAILED, std::memory_order_release);\n            this->forwarder_busy = false;\n            return;\n        }",
         "        if (this->my_reserved || !derived->is_item_valid()) {\n            this->forwarder_busy = false;\n            return;\n        }")]),
    dict(name='c14-finalize-release-first', prop='C14', clause='D5', edits=[
        ('include/oneapi/tbb/detail/_flow_graph_impl.h', "    destruct_and_deallocate<DerivedType>(ed);\n    reference_vertex->release();", "    reference_vertex->release();\n    destruct_and_deallocate<DerivedType>(ed);")]),
    dict(name='c14-queue-destroy-unconditional', prop='C14', clause='D4', edits=[
        (FG_H, "        if (new_task) {\n            // workaround for icc bug\n            graph& graph_ref = this->graph_reference();\n            last_task = combine_tasks(graph_ref, last_task, new_task);\n            this->destroy_front();\n        }",
         "        if (new_task) {\n            // workaround for icc bug\n            graph& graph_ref = this->graph_reference();\n            last_task = combine_tasks(graph_ref, last_task, new_task);\n        }\n        this->destroy_front();")]),
    dict(name='c14-round-robin-no-register', prop='C14', clause='D4', edits=[
        (FGC_H, "            if ( new_task ) {\n                return new_task;\n            } else {\n               if ( (*i)->register_predecessor(*this->my_owner) ) {\n                   i = this->my_successors.erase(i);\n               }\n               else {\n                   ++i;\n               }\n            }",
         "            if ( new_task ) {\n                return new_task;\n            } else {\n                   ++i;\n            }")]),
    dict(name='c14-broadcast-erase-always', prop='C14', clause='D4', edits=[
        (FGC_H, "            else {  // failed\n                if ( (*i)->register_predecessor(*this->my_owner) ) {\n                    i = this->my_successors.erase(i);\n                } else {\n                    ++i;\n                }\n            }\n        }\n        return last_task;",
         "            else {  // failed\n                (*i)->register_predecessor(*this->my_owner);\n                i = this->my_successors.erase(i);\n            }\n        }\n        return last_task;")]),
    dict(name='c14-pred-cache-drops-edge', prop='C14', clause='D4', edits=[
        (FGC_H, "            if (successful_get == false) {\n                // Relinquish ownership of the edge\n                register_successor(*src, *my_owner);\n            } else {",
         "            if (successful_get == false) {\n            } else {")]),
    dict(name='c14-concurrency-written-outside', prop='C14', clause='D2', edits=[
        (FGN_H, "        operation_type op_data(t, tryput_bypass __TBB_FLOW_GRAPH_METAINFO_ARG(metainfo));\n        my_aggregator.execute(&op_data);",
         "        if (my_concurrency > my_max_concurrency) my_concurrency = my_max_concurrency;\n        operation_type op_data(t, tryput_bypass __TBB_FLOW_GRAPH_METAINFO_ARG(metainfo));\n        my_aggregator.execute(&op_data);")]),
    dict(name='c14-apply-body-task-cancel-leak', prop='C14', clause='D5', edits=[
        ('include/oneapi/tbb/detail/_flow_graph_body_impl.h', "    d1::task* cancel(d1::execution_data& ed) override {\n        BaseTaskType::template finalize<apply_body_task_bypass>(ed);",
         "    d1::task* cancel(d1::execution_data& ed) override {\n        BaseTaskType::template destruct_and_deallocate<apply_body_task_bypass>(ed);")]),
    dict(name='c14-task-for-inactive-graph', prop='C14', clause='D5', edits=[
        (FGN_H, "    inline graph_task* create_forward_task() {\n        if (!is_graph_active(my_graph_ref)) {\n            return nullptr;\n        }", "    inline graph_task* create_forward_task() {")]),
    dict(name='c14-seed3-join-accept-tested-on-accumulated-task', prop='C14', clause='D4', edits=[(FGJ_H, """                                    graph_task *new_task =
                                        my_successors.try_put_task(out __TBB_FLOW_GRAPH_METAINFO_ARG(metainfo));
                                    last_task = combine_tasks(my_graph, last_task, new_task);
                                    if(new_task) {""", """                                    last_task = combine_tasks(my_graph, last_task,
                                        my_successors.try_put_task(out __TBB_FLOW_GRAPH_METAINFO_ARG(metainfo)));
                                    if(last_task) {""")]),
    dict(name='c14-seed3-join-registration-does-not-forward', prop='C14', clause='D4', edits=[(FGJ_H, """                        if(tuple_build_may_succeed() && !forwarder_busy && is_graph_active(my_graph)) {
                            d1::small_object_allocator allocator{};
                            typedef forward_task_bypass< join_node_base<JP, InputTuple, OutputTuple> > task_type;
                            graph_task* t = allocator.new_object<task_type>(my_graph, allocator, *this);
                            spawn_in_graph_arena(my_graph, *t);
                            forwarder_busy = true;
                        }
                        current->status.store( SUCCEEDED, std::memory_order_release);""", """                        current->status.store( SUCCEEDED, std::memory_order_release);""")]),
    dict(name='c14-input-node-registration-does-not-put', prop='C14', clause='D4', edits=[(FG_H, """        my_successors.register_successor(r);
        if ( my_active )
            spawn_put();
        return true;""", """        my_successors.register_successor(r);
        return true;""")]),
    dict(name='c14-rejected-put-resets-forwarding-flag', prop='C14', clause='D1', edits=[(FG_H,
        "            case put_item: if (internal_push(tmp)) try_forwarding = true; break;", "            case put_item: try_forwarding = internal_push(tmp); break;")]),
    dict(name='c14-remove-edge-notifies-continue-node-twice', prop='C14', clause='D4', edits=[(FG_H,
        """        if (!std::is_same<T, continue_msg>::value) {
            // TODO revamp: investigate why full qualification is necessary here
            tbb::detail::d2::remove_predecessor(r, *this);
        }""", """        tbb::detail::d2::remove_predecessor(r, *this);""")]),
    # ---------------------------------------------------------------- C15
    dict(name='c15-limiter-missing-dec', prop='C15', clause='D1', edits=[
        (FG_H, "        {\n            spin_mutex::scoped_lock lock(my_mutex);\n            --my_tries;\n            trim_future_decrement();\n            if (reserved) my_predecessors.try_release();",
         "        {\n            spin_mutex::scoped_lock lock(my_mutex);\n            if (reserved) --my_tries;\n            trim_future_decrement();\n            if (reserved) my_predecessors.try_release();")]),
    dict(name='c15-limiter-count-unlocked', prop='C15', clause='D1', edits=[
        (FG_H, "        {\n            spin_mutex::scoped_lock lock(my_mutex);\n            if ( my_count + my_tries >= my_threshold )\n                return nullptr;\n            else\n                ++my_tries;\n        }",
         "        {\n            if ( my_count + my_tries >= my_threshold )\n                return nullptr;\n            spin_mutex::scoped_lock lock(my_mutex);\n            ++my_tries;\n        }")]),
    dict(name='c15-limiter-no-release', prop='C15', clause='D1', edits=[
        (FG_H, "            if (reserved) my_predecessors.try_release();", "            (void)reserved;")]),
    dict(name='c15-limiter-count-on-reject', prop='C15', clause='D1', edits=[
        (FG_H, "        if ( !rtask ) {  // try_put_task failed.\n            spin_mutex::scoped_lock lock(my_mutex);\n            --my_tries;", "        if ( !rtask ) {  // try_put_task failed.\n            spin_mutex::scoped_lock lock(my_mutex);\n            ++my_count;\n            --my_tries;")]),
    dict(name='c15-join-reserve-no-release', prop='C15', clause='D2', edits=[
        (FGJ_H, "            if ( !join_helper<N-1>::reserve( my_input, out ) ) {\n                release_my_reservation( my_input );\n                return false;\n            }",
         "            if ( !join_helper<N-1>::reserve( my_input, out ) ) {\n                return false;\n            }")]),
    dict(name='c15-join-accept-on-reject', prop='C15', clause='D2', edits=[
        (FGJ_H, "                                    else {\n                                        tuple_rejected();\n                                        build_succeeded = false;\n                                    }",
         "                                    else {\n                                        tuple_accepted();\n                                        build_succeeded = false;\n                                    }")]),
    dict(name='c15-sequence-number-successor-wraps', prop='C15', clause='D3', edits=[('include/oneapi/tbb/flow_graph.h', '        if (tag + 1 == 0) {\n            // the largest sequence number has no successor: tag+1 would wrap, the tail would not cover the item\n            // and it would be written over a buffered one\n            op->status.store(FAILED, std::memory_order_release);\n            return false;\n        }\n', '')]),
    dict(name='c15-sequence-number-wrap-test-only-for-an-empty-buffer', prop='C15', clause='D3', edits=[('include/oneapi/tbb/flow_graph.h', '        if (tag + 1 == 0) {\n            // the largest sequence number has no successor: tag+1 would wrap, the tail would not cover the item\n            // and it would be written over a buffered one\n            op->status.store(FAILED, std::memory_order_release);\n            return false;\n        }\n', '        if (tag + 1 == 0 && this->my_head == 0) {\n            // the largest sequence number has no successor: tag+1 would wrap, the tail would not cover the item\n            // and it would be written over a buffered one\n            op->status.store(FAILED, std::memory_order_release);\n            return false;\n        }\n')]),
    dict(name='c15-sequencer-accepts-stale', prop='C15', clause='D3', edits=[
        (FG_H, "        if (tag < this->my_head) {\n            // have already emitted a message with this tag\n            op->status.store(FAILED, std::memory_order_release);\n            return false;\n        }", "")]),
    dict(name='c15-queue-pop-while-reserved', prop='C15', clause='D3', edits=[
        (FG_H, "    void internal_pop(queue_operation *op) override {\n        if ( this->my_reserved || !this->my_item_valid(this->my_head)){", "    void internal_pop(queue_operation *op) override {\n        if ( !this->my_item_valid(this->my_head)){")]),
    dict(name='c15-prio-release-loses-item', prop='C15', clause='D3', edits=[
        (FG_H, "        op->status.store(SUCCEEDED, std::memory_order_release);\n        prio_push(reserved_item __TBB_FLOW_GRAPH_METAINFO_ARG(reserved_metainfo));\n        this->my_reserved = false;",
         "        op->status.store(SUCCEEDED, std::memory_order_release);\n        this->my_reserved = false;")]),
    dict(name='c15-write-once-overwrites', prop='C15', clause='D4', edits=[
        (FG_H, "        return this->my_buffer_is_valid ? nullptr : this->try_put_task_impl(v __TBB_FLOW_GRAPH_METAINFO_ARG(message_metainfo{}));",
         "        return this->try_put_task_impl(v __TBB_FLOW_GRAPH_METAINFO_ARG(message_metainfo{}));")]),
    dict(name='c15-overwrite-get-unlocked', prop='C15', clause='D4', edits=[
        (FG_H, "    bool try_get( input_type &v ) override {\n        spin_mutex::scoped_lock l( my_mutex );\n        if ( my_buffer_is_valid ) {", "    bool try_get( input_type &v ) override {\n        if ( my_buffer_is_valid ) {")]),
    dict(name='c15-split-wrong-port', prop='C15', clause='D5', edits=[
        (FGN_H, "        graph_task* last_task = std::get<N-1>(p).try_put_task(std::get<N-1>(t));\n        check_task_and_spawn(g, last_task);\n        return emit_element<N-1>::emit_this(g,t,p);",
         "        graph_task* last_task = std::get<N-1>(p).try_put_task(std::get<(N>2?N-2:N-1)>(t));\n        check_task_and_spawn(g, last_task);\n        return emit_element<N-1>::emit_this(g,t,p);")]),
    dict(name='c15-indexer-wrong-tag', prop='C15', clause='D5', edits=[
        ('include/oneapi/tbb/detail/_flow_graph_indexer_impl.h', "            auto indexer_node_put_task = do_try_put<IndexerNodeBaseType, T, N-1>;\n            std::get<N-1>(my_input).set_up(p, indexer_node_put_task, g);\n            indexer_helper<TupleTypes,N-1>",
         "            auto indexer_node_put_task = do_try_put<IndexerNodeBaseType, T, 0>;\n            std::get<N-1>(my_input).set_up(p, indexer_node_put_task, g);\n            indexer_helper<TupleTypes,N-1>")]),
    dict(name='c15-seed3-pqn-reheap-bounded-by-tail', prop='C15', clause='D3', edits=[(FG_H, """        while (child < mark) {
            size_type target = child;
            if (child+1<mark &&""", """        while (child < this->my_tail) {
            size_type target = child;
            if (child+1 < this->my_tail &&""")]),
    dict(name='c15-pqn-copy-drops-comparator', prop='C15', clause='D3', edits=[(FG_H,
        "        : buffer_node<T>(src), compare(src.compare), mark(0)", "        : buffer_node<T>(src), mark(0)")]),
    # ---------------------------------------------------------------- C16
    dict(name='c16-try_occupy-store', prop='C16', clause='D1', edits=[
        (AS_H, "        return !is_occupied() && my_is_occupied.exchange(true) == false;", "        return !is_occupied() && (my_is_occupied.store(true), true);")]),
    dict(name='c16-worker-from-slot-0', prop='C16', clause='D2', edits=[
        (AR_CPP, "        index = occupy_free_slot_in_range(tls, my_num_reserved_slots, my_num_slots );", "        index = occupy_free_slot_in_range(tls, 0, my_num_slots );")]),
    dict(name='c16-steal-ignores-isolation', prop='C16', clause='D4', edits=[
        (AS_CPP, "            if (isolation == no_isolation || isolation == task_accessor::isolation(*result)) {", "            {")]),
    dict(name='c16-nested-no-release', prop='C16', clause='D1', edits=[
        (AR_CPP, "            td.leave_task_dispatcher();\n            td.my_arena_slot->release();\n            td.my_arena->my_exit_monitors.notify_one(); // do not relax!",
         "            td.leave_task_dispatcher();\n            td.my_arena->my_exit_monitors.notify_one(); // do not relax!")]),
    dict(name='c16-process-early-return-keeps-slot', prop='C16', clause='D1', edits=[
        (AR_CPP, "    tls.my_inbox.set_is_idle(true);\n    if (tls.my_arena_slot->is_task_pool_published()) {\n        tls.my_inbox.set_is_idle(false);\n    }",
         "    tls.my_inbox.set_is_idle(true);\n    if (tls.my_arena_slot->is_task_pool_published()) {\n        tls.my_inbox.set_is_idle(false);\n    }\n    if (my_max_num_workers == 0) { on_thread_leaving(ref_worker); return; }")]),
    dict(name='c16-exit-observers-after-release', prop='C16', clause='D3', edits=[
        (AR_CPP, "    my_observers.notify_exit_observers(tls.my_last_observer, tls.my_is_worker);\n    tls.my_last_observer = nullptr;\n\n    tls.leave_task_dispatcher();\n\n    // Arena slot detach (arena may be used in market::process)\n    // TODO: Consider moving several calls below into a new method(e.g.detach_arena).\n    tls.my_arena_slot->release();",
         "    tls.leave_task_dispatcher();\n\n    // Arena slot detach (arena may be used in market::process)\n    // TODO: Consider moving several calls below into a new method(e.g.detach_arena).\n    tls.my_arena_slot->release();\n    my_observers.notify_exit_observers(tls.my_last_observer, tls.my_is_worker);\n    tls.my_last_observer = nullptr;")]),
    dict(name='c16-fifo-under-isolation', prop='C16', clause='D4', edits=[
        (TDH, "        else if (fifo_allowed && isolation == no_isolation\n                 && (t = get_stream_or_critical_task(ed, a, fifo_stream, fifo_hint, isolation, critical_allowed))) {",
         "        else if (fifo_allowed\n                 && (t = get_stream_or_critical_task(ed, a, fifo_stream, fifo_hint, isolation, critical_allowed))) {")]),
    dict(name='c16-isolate-no-restore-on-throw', prop='C16', clause='D4', edits=[
        (AR_CPP, "    }).on_completion([&] {\n        __TBB_ASSERT(governor::get_thread_data()->my_task_dispatcher == dispatcher, nullptr);\n        dispatcher->set_isolation(previous_isolation);\n    });",
         "    }).on_exception([&] {\n    });\n    dispatcher->set_isolation(previous_isolation);")]),
    dict(name='c16-market-demand-unlocked', prop='C16', clause='D5', edits=[
        ('src/tbb/market.cpp', "    int delta{};\n    {\n        mutex_type::scoped_lock lock(my_mutex);\n        // Update client's state\n        delta = c.update_request(mandatory_delta, workers_delta);\n",
         "    int delta{};\n    {\n        // Update client's state\n        delta = c.update_request(mandatory_delta, workers_delta);\n        mutex_type::scoped_lock lock(my_mutex);\n"),
        ('src/tbb/market.cpp', "        // Update market's state\n        my_total_demand += delta;", "        // Update market's state\n        lock.release(); my_total_demand += delta; lock.acquire(my_mutex);")]),
    dict(name='c16-parallelism-prefers-max', prop='C16', clause='D5', edits=[
        ('src/tbb/global_control.cpp', "        return a<b; // prefer min allowed parallelism", "        return a>b; // prefer min allowed parallelism")]),
    dict(name='c16-parallelism-no-minus-one', prop='C16', clause='D5', edits=[
        ('src/tbb/global_control.cpp', "        threading_control::set_active_num_workers(my_active_value - 1);", "        threading_control::set_active_num_workers(my_active_value);")]),
    dict(name='c16-join-unconditionally', prop='C16', clause='D6', edits=[
        (AR_CPP, "    if (is_joinable()) {\n        my_references += arena::ref_worker;\n        return true;\n    }\n    return false;", "    my_references += arena::ref_worker;\n    return true;")]),
    dict(name='c16-seed5-tag-stored-only-for-mailbox-tasks', prop='C16', clause='D4', edits=[(TDH, '            ed.context = task_accessor::context(*t);\n            ed.isolation = task_accessor::isolation(*t);\n            a.my_observers.notify_entry_observers(tls.my_last_observer, tls.my_is_worker);', '            ed.context = task_accessor::context(*t);\n            a.my_observers.notify_entry_observers(tls.my_last_observer, tls.my_is_worker);'), (TDH, '            ed.affinity_slot = ed.task_disp->m_thread_data->my_arena_index;\n            return result;', '            ed.affinity_slot = ed.task_disp->m_thread_data->my_arena_index;\n            ed.isolation = task_accessor::isolation(*result);\n            return result;')]),
    dict(name='c16-local-pool-task-runs-with-the-previous-tag', prop='C16', clause='D4', edits=[(TDH, '                    ed.context = task_accessor::context(*t);\n                    ed.isolation = task_accessor::isolation(*t);\n                    continue;', '                    ed.context = task_accessor::context(*t);\n                    continue;')]),
    dict(name='c16-critical-task-runs-with-the-previous-tag', prop='C16', clause='D4', edits=[(TDH, '        ed.context = task_accessor::context(*crit_t);\n        ed.isolation = task_accessor::isolation(*crit_t);', '        ed.context = task_accessor::context(*crit_t);\n        ed.isolation = isolation;')]),
    dict(name='c16-stolen-task-respawned-with-the-previous-tag', prop='C16', clause='D4', edits=[(TDH, '        ed.context = task_accessor::context(*t);\n        ed.isolation = task_accessor::isolation(*t);\n        return get_critical_task(t, ed, isolation, critical_allowed);', '        ed.context = task_accessor::context(*t);\n        return get_critical_task(t, ed, isolation, critical_allowed);')]),
    dict(name='c16-critical-stream-hands-out-any-task', prop='C16', clause='D4', edits=[('src/tbb/task_stream.h', '            if( result && (task_accessor::isolation(*result) == isolation || task_accessor::is_resume_task(*result)) ) {', '            if( result ) {')]),
    # ---------------------------------------------------------------- C17
    dict(name='c17-free-always-own', prop='C17', clause='D1', edits=[
        (FE_CPP, "    if (block->isOwnedByCurrentThread()) {\n        block->freeOwnObject(object);\n    } else {", "    if (block->isOwnedByCurrentThread() || block->empty()) {\n        block->freeOwnObject(object);\n    } else {")]),
    dict(name='c17-public-push-store', prop='C17', clause='D1', edits=[
        (FE_CPP, "    do {\n        objectToFree->next = localPublicFreeList;\n        // no backoff necessary because trying to make change, not waiting for a change\n    } while( !publicFreeList.compare_exchange_strong(localPublicFreeList, objectToFree) );",
         "    objectToFree->next = localPublicFreeList;\n    publicFreeList.store(objectToFree, std::memory_order_release);")]),
    dict(name='c17-public-push-stale-link', prop='C17', clause='D1', edits=[
        (FE_CPP, "    do {\n        objectToFree->next = localPublicFreeList;\n        // no backoff necessary because trying to make change, not waiting for a change\n    } while( !publicFreeList.compare_exchange_strong(localPublicFreeList, objectToFree) );",
         "    objectToFree->next = localPublicFreeList;\n    do {\n        // no backoff necessary because trying to make change, not waiting for a change\n    } while( !publicFreeList.compare_exchange_strong(localPublicFreeList, objectToFree) );")]),
    dict(name='c17-mail-always', prop='C17', clause='D1', edits=[
        (FE_CPP, "    if( localPublicFreeList==nullptr ) {\n        // if the block is abandoned, its nextPrivatizable pointer should be UNUSABLE", "    {\n        // if the block is abandoned, its nextPrivatizable pointer should be UNUSABLE")]),
    dict(name='c17-privatize-load-store', prop='C17', clause='D1', edits=[
        (FE_CPP, "    localPublicFreeList = publicFreeList.exchange((FreeObject*)endMarker);", "    localPublicFreeList = publicFreeList.load(std::memory_order_acquire); publicFreeList.store((FreeObject*)endMarker, std::memory_order_relaxed);")]),
    dict(name='c17-calloc-wrong-size', prop='C17', clause='D2', edits=[
        (FE_CPP, "    if (result)\n        memset(result, 0, arraySize);", "    if (result)\n        memset(result, 0, size);")]),
    dict(name='c17-realloc-copy-newsize', prop='C17', clause='D2', edits=[
        (FE_CPP, "        memcpy(result, ptr, copySize < newSize ? copySize : newSize);", "        memcpy(result, ptr, copySize > newSize ? copySize : newSize);")]),
    dict(name='c17-realloc-free-on-failure', prop='C17', clause='D2', edits=[
        (FE_CPP, "    if (result) {\n        memcpy(result, ptr, copySize < newSize ? copySize : newSize);\n        internalPoolFree(memPool, ptr, 0);\n    }",
         "    if (result) {\n        memcpy(result, ptr, copySize < newSize ? copySize : newSize);\n    }\n    internalPoolFree(memPool, ptr, 0);")]),
    dict(name='c17-seed3-remap-of-a-shared-region', prop='C17', clause='D5', edits=[('src/tbbmalloc/backend.cpp', """    if (oldRegion->type != MEMREG_ONE_BLOCK)
        return nullptr;  // we are not single in the region
""", """    MALLOC_ASSERT( oldRegion->type == MEMREG_ONE_BLOCK, ASSERT_TEXT );
""")]),
    # ---------------------------------------------------------------- C18
    dict(name='c18-memalign-no-check', prop='C18', clause='D1', edits=[
        (FE_CPP, "    if ( !isPowerOfTwoAtLeast(alignment, sizeof(void*)) )\n        return EINVAL;\n", "")]),
    dict(name='c18-malloc-no-errno', prop='C18', clause='D1', edits=[
        (FE_CPP, "    void *ptr = internalMalloc(size);\n    if (!ptr) errno = ENOMEM;\n    return ptr;", "    void *ptr = internalMalloc(size);\n    return ptr;")]),
    dict(name='c18-calloc-overflow-ignored', prop='C18', clause='D1', edits=[
        (FE_CPP, "        if (nobj && arraySize / nobj != size) {             // 2) exact check\n            errno = ENOMEM;\n            return nullptr;\n        }",
         "        if (nobj && arraySize / nobj != size) {             // 2) exact check\n            errno = ENOMEM;\n        }")]),
    dict(name='c18-memalign-memptr-on-failure', prop='C18', clause='D1', edits=[
        (FE_CPP, "    void *result = allocateAligned(defaultMemPool, size, alignment);\n    if (!result)\n        return ENOMEM;\n    *memptr = result;\n    return 0;",
         "    void *result = allocateAligned(defaultMemPool, size, alignment);\n    *memptr = result;\n    if (!result)\n        return ENOMEM;\n    return 0;")]),
    dict(name='c18-aligned-unchecked-null', prop='C18', clause='D2', edits=[
        (FE_CPP, "            void *unaligned = internalPoolMalloc(memPool, size+alignment);\n            if (!unaligned) return nullptr;\n", "            void *unaligned = internalPoolMalloc(memPool, size+alignment);\n")]),
    dict(name='c18-pool-create-memset-null', prop='C18', clause='D3', edits=[
        (FE_CPP, "    if (!memPool) {\n        *pool = nullptr;\n        return NO_MEMORY;\n    }\n    memset(static_cast<void*>(memPool), 0, sizeof(rml::internal::MemoryPool));",
         "    memset(static_cast<void*>(memPool), 0, sizeof(rml::internal::MemoryPool));\n    if (!memPool) {\n        *pool = nullptr;\n        return NO_MEMORY;\n    }")]),
    dict(name='c18-fixed-pool-asks-again', prop='C18', clause='D3', edits=[
        ('src/tbbmalloc/backend.cpp', "        if (extMemPool->fixedPool && bootsrapMemDone == bootsrapMemStatus.load(std::memory_order_acquire))\n            return nullptr;\n", "")]),
    dict(name='c18-pool-destroy-order', prop='C18', clause='D3', edits=[
        (FE_CPP, "    bool ret = ((rml::internal::MemoryPool*)memPool)->destroy();\n    internalFree(memPool);\n", "    internalFree(memPool);\n    bool ret = ((rml::internal::MemoryPool*)memPool)->destroy();\n")]),
    dict(name='c18-pool-create-leak-on-init-failure', prop='C18', clause='D3', edits=[
        (FE_CPP, "    if (!memPool->init(pool_id, policy)) {\n        internalFree(memPool);\n        *pool = nullptr;", "    if (!memPool->init(pool_id, policy)) {\n        *pool = nullptr;")]),
    dict(name='c18-user-pool-maps-os', prop='C18', clause='D3', edits=[
        ('src/tbbmalloc/backend.cpp', "        allocSize = alignUpGeneric(size, extMemPool->granularity);\n        res = (*extMemPool->rawAlloc)(extMemPool->poolId, allocSize);",
         "        allocSize = alignUpGeneric(size, extMemPool->granularity);\n        res = (*extMemPool->rawAlloc)(extMemPool->poolId, allocSize);\n        if (!res) res = getRawMemory(allocSize, REGULAR);")]),
    dict(name='c18-remap-size-not-checked-for-wrap', prop='C18', clause='D1', edits=[('src/tbbmalloc/backend.cpp', """    if (alignedSize < newSize) // is wrapped around?
        return nullptr;
""", """""")]),
    dict(name='c18-llocache-size-not-checked-for-wrap', prop='C18', clause='D1', edits=[(FE_CPP, """    if (allocationSize < size) // allocationSize is wrapped around after alignToBin
        return nullptr;
""", """""")]),
    dict(name='c18-seed3-calloc-heuristic-requires-both-factors-large', prop='C18', clause='D1', edits=[(FE_CPP,
        "    if (nobj>=mult_not_overflow || size>=mult_not_overflow) // 1) heuristic check", "    if (nobj>=mult_not_overflow && size>=mult_not_overflow) // 1) heuristic check")]),
    dict(name='c18-tbb-allocator-unchecked-product', prop='C18', clause='D1', edits=[('include/oneapi/tbb/tbb_allocator.h',
        """        if (n > ~std::size_t(0) / sizeof(value_type)) {
            throw_exception(exception_id::bad_alloc);
        }
""", """""")]),
    # ---------------------------------------------------------------- C19
    dict(name='c19-guard-after-fetch_sub', prop='C19', clause='D2', edits=[
        (CO_H, "                    collaborative_once_runner::lifetime_guard guard{*shared_runner};\n                    m_state.fetch_sub(1);",
         "                    m_state.fetch_sub(1);\n                    collaborative_once_runner::lifetime_guard guard{*shared_runner};")]),
    dict(name='c19-no-exception-reset', prop='C19', clause='D3', edits=[
        (CO_H, "                    try_call([&] {\n                        std::forward<Fn>(f)();\n                    }).on_exception([&] {\n                        // Reset the state to uninitialized to allow other threads to try initialization again\n                        set_completion_state(runner.to_bits(), state::uninitialized);\n                    });",
         "                    std::forward<Fn>(f)();")]),
    dict(name='c19-helper-ref-unguarded', prop='C19', clause='D1', edits=[
        (CO_H, "                } while (expected > state::done && !m_state.compare_exchange_strong(expected, expected + 1));", "                } while (!m_state.compare_exchange_strong(expected, expected + 1));")]),
    dict(name='c19-runner-dtor-no-wait', prop='C19', clause='D2', edits=[
        (CO_H, "        spin_wait_until_eq(m_ref_count, 0, std::memory_order_acquire);\n        if (m_is_ready.load(std::memory_order_relaxed)) {", "        if (m_is_ready.load(std::memory_order_relaxed)) {")]),
    dict(name='c19-ready-relaxed', prop='C19', clause='D2', edits=[
        (CO_H, "                m_is_ready.store(true, std::memory_order_release);", "                m_is_ready.store(true, std::memory_order_relaxed);")]),
    dict(name='c19-assist-no-ready-wait', prop='C19', clause='D2', edits=[
        (CO_H, "        spin_wait_while_eq(m_is_ready, false);\n        m_storage.m_arena.execute([&] {\n            isolated_execute([&] {\n                // We do not want", "        m_storage.m_arena.execute([&] {\n            isolated_execute([&] {\n                // We do not want")]),
    dict(name='c19-runner-alignment', prop='C19', clause='D4', edits=[
        (CO_H, "class alignas(max_nfs_size) collaborative_once_runner : no_copy {", "class alignas(16) collaborative_once_runner : no_copy {")]),
    dict(name='c19-slot-claim-store', prop='C19', clause='D5', edits=[
        (ETS_H, "            key_type expected = key_type();\n            return key.compare_exchange_strong(expected, k);", "            if (key.load(std::memory_order_relaxed) != key_type()) return false;\n            key.store(k, std::memory_order_relaxed); return true;")]),
    dict(name='c19-ptr-before-claim', prop='C19', clause='D5', edits=[
        (ETS_H, "        if( s.empty() ) {\n            if( s.claim(k) ) {\n                s.ptr = found;\n                return found;\n            }\n        }", "        if( s.empty() ) {\n            s.ptr = found;\n            if( s.claim(k) ) {\n                return found;\n            }\n        }")]),
    dict(name='c19-root-store', prop='C19', clause='D5', edits=[
        (ETS_H, "                if( my_root.compare_exchange_strong(new_r, a) ) break;", "                if( my_root.load(std::memory_order_relaxed) == new_r ) { my_root.store(a, std::memory_order_release); break; }")]),
    dict(name='c19-seed3-per-instance-key-survives-clear', prop='C19', clause='D5', edits=[(ETS_H, """    void table_clear() {
        destroy_key();
        create_key();
        super::table_clear();""", """    void table_clear() {
        set_tls(nullptr);
        super::table_clear();""")]),
    # ---------------------------------------------------------------- C20
    dict(name='c20-notify-load-store', prop='C20', clause='D1', edits=[
        (SC_H, "        return m_stack_state.exchange(stack_state::notified) == stack_state::suspended;",
         "        bool r = m_stack_state.load(std::memory_order_acquire) == stack_state::suspended;\n        m_stack_state.store(stack_state::notified, std::memory_order_release);\n        return r;")]),
    dict(name='c20-finalize-never-resumes', prop='C20', clause='D1', edits=[
        (SC_H, "        if (m_prev_suspend_point && m_prev_suspend_point->m_stack_state.exchange(stack_state::suspended) == stack_state::notified) {\n            r1::resume(m_prev_suspend_point);\n        }",
         "        if (m_prev_suspend_point) {\n            m_prev_suspend_point->m_stack_state.exchange(stack_state::suspended);\n        }")]),
    dict(name='c20-finalize-always-resumes', prop='C20', clause='D1', edits=[
        (SC_H, "        if (m_prev_suspend_point && m_prev_suspend_point->m_stack_state.exchange(stack_state::suspended) == stack_state::notified) {",
         "        if (m_prev_suspend_point && m_prev_suspend_point->m_stack_state.exchange(stack_state::suspended) != stack_state::active) {")]),
    dict(name='c20-resume-push-both', prop='C20', clause='D2', edits=[
        ('src/tbb/task.cpp', "            a.my_resume_task_stream.push(&sp->m_resume_task, random_lane_selector(sp->m_random));\n        } else {",
         "            a.my_resume_task_stream.push(&sp->m_resume_task, random_lane_selector(sp->m_random));\n        }\n        {")]),
    dict(name='c20-resume-unconditional', prop='C20', clause='D2', edits=[
        ('src/tbb/task.cpp', "    if (sp->try_notify_resume()) {\n        // TODO: remove this work-around", "    sp->try_notify_resume();\n    {\n        // TODO: remove this work-around")]),
    dict(name='c20-action-not-cleared', prop='C20', clause='D3', edits=[
        ('src/tbb/task.cpp', "        __TBB_ASSERT(td->my_post_resume_arg == nullptr, \"The post resume argument should not be set\");\n    }\n    td->clear_post_resume_action();",
         "        __TBB_ASSERT(td->my_post_resume_arg == nullptr, \"The post resume argument should not be set\");\n    }\n    if (td->my_post_resume_action != post_resume_action::notify) td->clear_post_resume_action();")]),
    dict(name='c20-recall-no-action', prop='C20', clause='D3', edits=[
        (TDH, "        m_thread_data->set_post_resume_action(post_resume_action::notify, get_suspend_point());\n        internal_suspend();", "        internal_suspend();")]),
    dict(name='c20-notify-on-first', prop='C20', clause='D4', edits=[
        ('src/tbb/thread_control_monitor.h', "        if (++my_notify_calls == 2) {", "        if (++my_notify_calls >= 1) {")]),
    dict(name='c20-stack-state-store-elsewhere', prop='C20', clause='D1', edits=[
        (SC_H, "        __TBB_ASSERT(m_stack_state.load(std::memory_order_relaxed) == stack_state::suspended, nullptr);\n        m_stack_state.store(stack_state::notified, std::memory_order_relaxed);",
         "        __TBB_ASSERT(m_stack_state.load(std::memory_order_relaxed) == stack_state::suspended, nullptr);\n        m_stack_state.store(stack_state::active, std::memory_order_relaxed);")]),
]

MUTANTS += [
    dict(name='c14-seed4-remove-successor-drops-handler-task', prop='C14', clause='D5', edits=[(FG_H, """        my_aggregator.execute(&op_data);
        // even though this operation does not cause a forward, if we are the handler, and
        // a forward is scheduled, we may be the first to reach this point after the aggregator,
        // and so should check for the task.
        (void)enqueue_forwarding_task(op_data);
        return true;""", """        my_aggregator.execute(&op_data);
        return true;""")]),
    dict(name='c13-seed4-push-handler-catches-bad-alloc-only', prop='C13', clause='D3', edits=[(CPQ_H, "                catch(...) {\n                    tmp->status.store(uintptr_t(FAILED), std::memory_order_release);", "                catch(const std::bad_alloc&) {\n                    tmp->status.store(uintptr_t(FAILED), std::memory_order_release);")]),
    dict(name='c04-seed4-state-copied-before-registration-without-grandparent', prop='C04', clause='D4', edits=[
        (TGC_CPP, """    } else {
        register_with(ctx, td); // Issues full fence
        // As we do not have grand-ancestors, concurrent state propagation (if any)
        // may originate only from the parent context, and thus it is safe to directly
        // copy the state from it.
        // Only ever raise the state: a cancellation requested for this context before its first use must survive binding.
        if (std::uint32_t parent_state = ctx.my_parent->my_cancellation_requested.load(std::memory_order_relaxed)) {
            ctx.my_cancellation_requested.store(parent_state, std::memory_order_relaxed);
        }
    }
}""", """    } else {
        if (std::uint32_t parent_state = ctx.my_parent->my_cancellation_requested.load(std::memory_order_relaxed)) {
            ctx.my_cancellation_requested.store(parent_state, std::memory_order_relaxed);
        }
        register_with(ctx, td); // Issues full fence
    }
}""")]),
    dict(name='c20-cancelled-resume-task-is-dropped', prop='C20', clause='D5', edits=[('src/tbb/scheduler_common.h',
        "            return execute(ed);\n        }\n    } m_resume_task;", "            suppress_unused_warning(ed);\n            return nullptr;\n        }\n    } m_resume_task;")]),
    dict(name='c20-seed3-critical-resume-not-advertised', prop='C20', clause='D2', edits=[('src/tbb/task.cpp', """        if (task_disp.m_properties.critical_task_allowed) {
            // The target is not in the process of executing critical task, so the resume task is not critical.
            a.my_resume_task_stream.push(&sp->m_resume_task, random_lane_selector(sp->m_random));
        } else {
    #if __TBB_PREVIEW_CRITICAL_TASKS
            // The target is in the process of executing critical task, so the resume task is critical.
            a.my_critical_task_stream.push(&sp->m_resume_task, random_lane_selector(sp->m_random));
    #endif
        }
        // Do not access target after that point.
        // Like an enqueued task, the resume task can only be taken by a thread inside the arena, and all of them may
        // have left while the task was suspended: ask for mandatory concurrency as well.
        a.advertise_new_work<arena::work_enqueued>();""", """#if __TBB_PREVIEW_CRITICAL_TASKS
        if (!task_disp.m_properties.critical_task_allowed) {
            a.my_critical_task_stream.push(&sp->m_resume_task, random_lane_selector(sp->m_random));
        } else
#endif
        {
            a.my_resume_task_stream.push(&sp->m_resume_task, random_lane_selector(sp->m_random));
            a.advertise_new_work<arena::work_enqueued>();
        }""")]),
    dict(name='c16-seed3-mandatory-revocation-skipped', prop='C16', clause='D5', edits=[(AR_CPP,
        "        request_workers(mandatory_delta, workers_delta);\n    }\n}", "        if (workers_delta != 0) {\n            request_workers(mandatory_delta, workers_delta);\n        }\n    }\n}")]),
]

BENIGN = [
    dict(name='c03-b-destructor-wait-branches-swapped', prop='C03', edits=[('include/oneapi/tbb/task_group.h', "            if (stack_unwinding_in_progress) {\n                // Another exception is already in flight: an exception of the group's own tasks must not leave the\n                // destructor as well (that would terminate the program); it cannot be reported any more.\n#if TBB_USE_EXCEPTIONS\n                try\n#endif\n                {\n                    d1::wait(m_wait_vertex.get_context(), context());\n                }\n#if TBB_USE_EXCEPTIONS\n                catch (...) {}\n#endif\n            } else {\n                d1::wait(m_wait_vertex.get_context(), context());\n                throw_exception(exception_id::missing_wait);\n            }\n", '            if (!stack_unwinding_in_progress) {\n                d1::wait(m_wait_vertex.get_context(), context());\n                throw_exception(exception_id::missing_wait);\n            }\n#if TBB_USE_EXCEPTIONS\n            try\n#endif\n            {\n                d1::wait(m_wait_vertex.get_context(), context());\n            }\n#if TBB_USE_EXCEPTIONS\n            catch (...) {}\n#endif\n')]),
    dict(name='c15-b-limiter-clamp-written-inline', prop='C15', edits=[('include/oneapi/tbb/flow_graph.h', '        if ( !rtask ) {  // try_put_task failed.\n            spin_mutex::scoped_lock lock(my_mutex);\n            --my_tries;\n            trim_future_decrement();\n', '        if ( !rtask ) {  // try_put_task failed.\n            spin_mutex::scoped_lock lock(my_mutex);\n            --my_tries;\n            if ( my_future_decrement > my_tries ) my_future_decrement = my_tries;\n')]),
    dict(name='c02-b-mandatory-request-count-read-by-load', prop='C02', edits=[('src/tbb/thread_request_serializer.cpp', '    } else if (my_num_mandatory_requests > 0) {\n        my_is_mandatory_concurrency_enabled = true;\n        soft_limit = 1;\n    }\n', '    } else if (my_num_mandatory_requests.load(std::memory_order_relaxed) != 0) {\n        soft_limit = 1;\n        my_is_mandatory_concurrency_enabled = true;\n    }\n')]),
    dict(name='c04-b-ancestor-climb-explicit-root-exit', prop='C04', edits=[('src/tbb/task_group_context.cpp', '                    (c->*mptr_state).store(new_state, std::memory_order_relaxed);\n                break;\n            }\n        }\n', '                    (c->*mptr_state).store(new_state, std::memory_order_relaxed);\n                break;\n            }\n            if (ancestor->my_parent == nullptr)\n                break;     // the root is not the source: ctx does not descend from it\n        }\n')]),
    dict(name='c19-b-cas-reloads-the-root-and-the-link-is-renewed', prop='C19', edits=[('include/oneapi/tbb/enumerable_thread_specific.h', '            for(;;) {\n                a->next = r;\n                call_itt_notify(releasing,a);\n                array* new_r = r;\n                if( my_root.compare_exchange_strong(new_r, a) ) break;\n                call_itt_notify(acquired, new_r);\n                __TBB_ASSERT(new_r != nullptr, nullptr);\n                if( new_r->lg_size >= s ) {\n                    // Another thread inserted an equal or  bigger array, so our array is superfluous.\n                    deallocate(a);\n                    break;\n                }\n                r = new_r;\n            }\n', '            for(;;) {\n                a->next = r;\n                call_itt_notify(releasing,a);\n                if( my_root.compare_exchange_strong(r, a) ) break;\n                call_itt_notify(acquired, r);\n                __TBB_ASSERT(r != nullptr, nullptr);\n                if( r->lg_size >= s ) {\n                    // Another thread inserted an equal or  bigger array, so our array is superfluous.\n                    deallocate(a);\n                    break;\n                }\n            }\n')]),
    dict(name='c10-b-accessor-hash-through-a-local', prop='C10', edits=[(CHM_H, '        result->my_hash = h;\n', '        { const hashcode_type whole_hash = h; result->my_hash = whole_hash; }\n')]),
    dict(name='c05-b-2d-ratio-comparison-in-a-local', prop='C05', edits=[('include/oneapi/tbb/blocked_range2d.h', '        if ( !my_rows.is_divisible() || (my_cols.is_divisible() &&\n             my_rows.size()*double(my_cols.grainsize()) < my_cols.size()*double(my_rows.grainsize())) ) {', '        const bool cols_larger = my_rows.size()*double(my_cols.grainsize()) < my_cols.size()*double(my_rows.grainsize());\n        if ( !my_rows.is_divisible() || (my_cols.is_divisible() && cols_larger) ) {')]),
    dict(name='c10-b-guarded-growth-through-a-local', prop='C10', edits=[(CHM_H, '#if TBB_USE_EXCEPTIONS\n            try\n#endif\n            {\n                this->enable_segment( grow_segment );\n            }\n#if TBB_USE_EXCEPTIONS\n            catch(...) {}\n#endif\n', '#if TBB_USE_EXCEPTIONS\n            try\n#endif\n            {\n                const segment_index_type seg = grow_segment;\n                this->enable_segment( seg );\n            }\n#if TBB_USE_EXCEPTIONS\n            catch(...) {}\n#endif\n')]),
    dict(name='c20-b-resume-exemption-through-a-local', prop='C20', edits=[('src/tbb/task_stream.h', '            if( result && (task_accessor::isolation(*result) == isolation || task_accessor::is_resume_task(*result)) ) {', '            const bool resume_task = result && task_accessor::is_resume_task(*result);\n            if( result && (resume_task || task_accessor::isolation(*result) == isolation) ) {')]),
    dict(name='c16-b-resume-exemption-through-a-local', prop='C16', edits=[('src/tbb/task_stream.h', '            if( result && (task_accessor::isolation(*result) == isolation || task_accessor::is_resume_task(*result)) ) {', '            const bool resume_task = result && task_accessor::is_resume_task(*result);\n            if( result && (resume_task || task_accessor::isolation(*result) == isolation) ) {')]),
    dict(name='c15-b-wrap-test-against-the-maximum', prop='C15', edits=[('include/oneapi/tbb/flow_graph.h', '        if (tag + 1 == 0) {\n            // the largest sequence number has no successor: tag+1 would wrap, the tail would not cover the item\n            // and it would be written over a buffered one\n            op->status.store(FAILED, std::memory_order_release);\n            return false;\n        }\n', '        if (tag == std::size_t(-1)) {\n            // the largest sequence number has no successor: tag+1 would wrap, the tail would not cover the item\n            // and it would be written over a buffered one\n            op->status.store(FAILED, std::memory_order_release);\n            return false;\n        }\n')]),
    dict(name='c11-b-long-table-wait-bound-by-segment-index', prop='C11', edits=[(CV_H, '        for (segment_index_type i = 0; this->segment_base(i) < start_index; ++i) {\n            spin_wait_while_eq(embedded_table[i], segment_type(nullptr));', '        for (segment_index_type i = 0; start_index != 0 && i <= this->segment_index_of(start_index - 1); ++i) {\n            spin_wait_while_eq(embedded_table[i], segment_type(nullptr));')]),
    dict(name='c19-b-key-swapped-by-hand', prop='C19', edits=[('include/oneapi/tbb/enumerable_thread_specific.h', '       using std::swap;\n       __TBB_ASSERT(this!=&other, "Don\'t swap an instance with itself");\n       swap(my_key, other.my_key);\n       super::table_swap(other);', '       __TBB_ASSERT(this!=&other, "Don\'t swap an instance with itself");\n       tls_key_t k = my_key;\n       my_key = other.my_key;\n       other.my_key = k;\n       super::table_swap(other);')]),
    dict(name='c20-b-fifo-gate-through-a-local', prop='C20', edits=[(TDH, '    bool stealing_is_allowed = can_steal();\n', '    bool stealing_is_allowed = can_steal();\n    const bool streams_allowed = isolation == no_isolation;\n'), (TDH, '        else if (fifo_allowed && isolation == no_isolation\n                 && (t = get_stream_or_critical_task(ed, a, fifo_stream, fifo_hint, isolation, critical_allowed))) {', '        else if (streams_allowed && fifo_allowed\n                 && (t = get_stream_or_critical_task(ed, a, fifo_stream, fifo_hint, isolation, critical_allowed))) {')]),
    dict(name='c16-b-fifo-gate-through-a-local', prop='C16', edits=[(TDH, '    bool stealing_is_allowed = can_steal();\n', '    bool stealing_is_allowed = can_steal();\n    const bool streams_allowed = isolation == no_isolation;\n'), (TDH, '        else if (fifo_allowed && isolation == no_isolation\n                 && (t = get_stream_or_critical_task(ed, a, fifo_stream, fifo_hint, isolation, critical_allowed))) {', '        else if (streams_allowed && fifo_allowed\n                 && (t = get_stream_or_critical_task(ed, a, fifo_stream, fifo_hint, isolation, critical_allowed))) {')]),
    # known findings must stay matched when unrelated lines move
    dict(name='c16-b-tag-stored-before-the-context', prop='C16', edits=[(TDH, '            ed.context = task_accessor::context(*t);\n            ed.isolation = task_accessor::isolation(*t);\n            a.my_observers.notify_entry_observers(tls.my_last_observer, tls.my_is_worker);', '            ed.isolation = task_accessor::isolation(*t);\n            a.my_observers.notify_entry_observers(tls.my_last_observer, tls.my_is_worker);\n            ed.context = task_accessor::context(*t);')]),
    dict(name='c16-b-tag-through-a-local', prop='C16', edits=[(TDH, '            ed.context = task_accessor::context(*t);\n            ed.isolation = task_accessor::isolation(*t);\n            a.my_observers.notify_entry_observers(tls.my_last_observer, tls.my_is_worker);', '            ed.context = task_accessor::context(*t);\n            const isolation_type tag = task_accessor::isolation(*t);\n            ed.isolation = tag;\n            a.my_observers.notify_entry_observers(tls.my_last_observer, tls.my_is_worker);')]),
    dict(name='c16-b-line-shift-known-finding', prop='C16', edits=[(AR_CPP, "#include \"arena.h\"\n", "// a comment\n// another comment\n#include \"arena.h\"\n")]),
    dict(name='c13-b-line-shift-known-finding', prop='C13', edits=[(CPQ_H, "namespace tbb {\nnamespace detail {\nnamespace d1 {\n", "// a comment\n// another comment\nnamespace tbb {\nnamespace detail {\nnamespace d1 {\n")]),
    dict(name='c04-b-line-shift-known-finding', prop='C04', edits=[('src/tbb/thread_data.h', "class context_list : public intrusive_list<d1::intrusive_list_node> {", "// a comment\n// another comment\nclass context_list : public intrusive_list<d1::intrusive_list_node> {")]),
    dict(name='c04-b-hint-published-by-exchange', prop='C04', edits=[
        (TGC_CPP, "        ctx.my_parent->my_may_have_children.store(d1::task_group_context::may_have_children, std::memory_order_relaxed);\n",
         "        ctx.my_parent->my_may_have_children.exchange(d1::task_group_context::may_have_children);\n"),
        (TGC_CPP, "        atomic_fence_seq_cst();\n    }\n    if (ctx.my_parent->my_parent) {", "    }\n    if (ctx.my_parent->my_parent) {")]),
    dict(name='c04-b-fence-unconditional', prop='C04', edits=[
        (TGC_CPP, "        atomic_fence_seq_cst();\n    }\n    if (ctx.my_parent->my_parent) {", "    }\n    std::atomic_thread_fence(std::memory_order_seq_cst);\n    if (ctx.my_parent->my_parent) {")]),
    dict(name='c04-b-binding-ors-own-state', prop='C04', edits=[
        (TGC_CPP, """        if (std::uint32_t parent_state = ctx.my_parent->my_cancellation_requested.load(std::memory_order_relaxed)) {
            ctx.my_cancellation_requested.store(parent_state, std::memory_order_relaxed);
        }
    }
}""", """        ctx.my_cancellation_requested.fetch_or(ctx.my_parent->my_cancellation_requested.load(std::memory_order_relaxed), std::memory_order_relaxed);
    }
}""")]),
    dict(name='c03-b-filter-input-destroyed-via-helper-lambda', prop='C03', edits=[('include/oneapi/tbb/detail/_pipeline_filters.h',
        """        tbb::detail::invoke(my_body, std::move(input_helper::token(temp_input)));
        input_helper::destroy_token(temp_input);
        return nullptr;""", """        auto release_input = [&] { input_helper::destroy_token(temp_input); };
        tbb::detail::invoke(my_body, std::move(input_helper::token(temp_input)));
        release_input();
        return nullptr;""")]),
    dict(name='c02-b-scan-oldest-first', prop='C02', edits=[('src/tbb/concurrent_monitor.h',
        """            for (base_node* n = my_waitset.last(); n != end; n = next) {
                next = n->prev;""", """            for (base_node* n = my_waitset.front(); n != end; n = next) {
                next = n->next;""")]),
    dict(name='c02-b-pop-announces-skipped-ticket-in-branch', prop='C02', edits=[(CQ_H,
        """            r1::notify_bounded_queue_monitor(my_monitors, cbq_slots_avail_tag, target);
        } while (!popped);
    }""", """            if (!popped) {
                r1::notify_bounded_queue_monitor(my_monitors, cbq_slots_avail_tag, target);
            }
        } while (!popped);
        r1::notify_bounded_queue_monitor(my_monitors, cbq_slots_avail_tag, target);
    }""")]),
    dict(name='c05-b-count-by-quotient-and-remainder', prop='C05', edits=[(PF_H,
        "        Index end = (last - first - Index(1)) / step + Index(1);", "        Index end = Index((last - first) / step + Index((last - first) % step != 0));")]),
    dict(name='c02-b-mandatory-budget-in-a-local', prop='C02', edits=[('src/tbb/market.cpp',
        "allotted = client.min_workers() > 0 && assigned < max_workers ? 1 : 0;",
        "int budget = max_workers - assigned;\n                if (client.min_workers() > 0 && budget > 0) { allotted = 1; }")]),
    dict(name='c08-b-rtm-upgrade-state-set-after', prop='C08', edits=[('src/tbb/rtm_rw_mutex.cpp',
        """            s.m_transaction_state = d1::rtm_rw_mutex::rtm_type::rtm_real_writer;
            bool no_release = s.m_mutex->upgrade();""",
        """            bool no_release = s.m_mutex->upgrade();
            s.m_transaction_state = d1::rtm_rw_mutex::rtm_type::rtm_real_writer;""")]),
    dict(name='c08-b-rtm-try-writer-result-in-a-local', prop='C08', edits=[('src/tbb/rtm_rw_mutex.cpp',
        """        if (m.try_lock()) {
            s.m_mutex = &m;""",
        """        const bool locked = m.try_lock();
        if (locked) {
            s.m_mutex = &m;""")]),
    dict(name='c12-b-skip-list-copy-assign-rng-after-copy', prop='C12', edits=[('include/oneapi/tbb/detail/_concurrent_skip_list.h',
        """            my_compare = other.my_compare;
            my_rng = other.my_rng;
            internal_copy(other);""",
        """            my_compare = other.my_compare;
            internal_copy(other);
            my_rng = other.my_rng;""")]),
    dict(name='c12-b-unordered-copy-assign-hasher-first', prop='C12', edits=[('include/oneapi/tbb/detail/_concurrent_unordered_base.h',
        """            clear();
            my_size.store(other.my_size.load(std::memory_order_relaxed), std::memory_order_relaxed);
            my_bucket_count.store(other.my_bucket_count.load(std::memory_order_relaxed), std::memory_order_relaxed);
            my_max_load_factor = other.my_max_load_factor;
            my_hash_compare = other.my_hash_compare;
            my_segments = other.my_segments;
            internal_copy(other);""",
        """            clear();
            my_hash_compare = other.my_hash_compare;
            my_size.store(other.my_size.load(std::memory_order_relaxed), std::memory_order_relaxed);
            my_bucket_count.store(other.my_bucket_count.load(std::memory_order_relaxed), std::memory_order_relaxed);
            my_max_load_factor = other.my_max_load_factor;
            my_segments = other.my_segments;
            internal_copy(other);""")]),
    dict(name='c01-b-occupy-flat-form', prop='C01', edits=[('src/tbb/arena.cpp', '    if ( index == out_of_arena ) {\n        // Secondly, all threads try to occupy all non-reserved slots\n        index = occupy_free_slot_in_range(tls, my_num_reserved_slots, my_num_slots );\n        // Likely this arena is already saturated\n        if ( index == out_of_arena )\n            return out_of_arena;\n    }\n\n    atomic_update( my_limit, (unsigned)(index + 1), std::less<unsigned>() );\n    return index;\n', '    if ( index == out_of_arena )\n        index = occupy_free_slot_in_range(tls, my_num_reserved_slots, my_num_slots );\n    if ( index != out_of_arena )\n        atomic_update( my_limit, (unsigned)(index + 1), std::less<unsigned>() );\n    return index;\n')]),
    dict(name='c01-b-occupy-two-variables', prop='C01', edits=[('src/tbb/arena.cpp', '    if ( index == out_of_arena ) {\n        // Secondly, all threads try to occupy all non-reserved slots\n        index = occupy_free_slot_in_range(tls, my_num_reserved_slots, my_num_slots );\n        // Likely this arena is already saturated\n        if ( index == out_of_arena )\n            return out_of_arena;\n    }\n\n    atomic_update( my_limit, (unsigned)(index + 1), std::less<unsigned>() );\n    return index;\n', '    if ( index != out_of_arena ) {\n        atomic_update( my_limit, (unsigned)(index + 1), std::less<unsigned>() );\n        return index;\n    }\n    std::size_t slot = occupy_free_slot_in_range(tls, my_num_reserved_slots, my_num_slots );\n    if ( out_of_arena == slot )\n        return slot;\n    my_limit.fetch_add(0);\n    atomic_update( my_limit, (unsigned)(slot + 1), std::less<unsigned>() );\n    return slot;\n')]),
    dict(name='c01-b-dispatcher-dtor-skips-vertices-with-children', prop='C01', edits=[('src/tbb/scheduler_common.h',
        """            if (node->get_num_child() == 0) {
                node->~reference_vertex();
                cache_aligned_deallocate(node);
            }""",
        """            if (node->get_num_child() != 0) {
                continue;
            }
            node->~reference_vertex();
            cache_aligned_deallocate(node);""")]),
    dict(name='c01-b-group-wait-epilogue-by-try-catch', prop='C01', edits=[('include/oneapi/tbb/task_group.h',
        '        bool cancellation_status = false;\n        try_call([&] {\n            d1::wait(m_wait_vertex.get_context(), context());\n        }).on_completion([&] {\n            // TODO: the reset method is not thread-safe. Ensure the correct behavior.\n            cancellation_status = m_context.is_group_execution_cancelled();\n            context().reset();\n        });\n        return cancellation_status ? canceled : complete;',
        '        try {\n            d1::wait(m_wait_vertex.get_context(), context());\n        } catch (...) {\n            context().reset();\n            throw;\n        }\n        bool cancellation_status = m_context.is_group_execution_cancelled();\n        context().reset();\n        return cancellation_status ? canceled : complete;')]),
    dict(name='c01-b-group-wait-epilogue-by-raii-guard', prop='C01', edits=[('include/oneapi/tbb/task_group.h',
        '        bool cancellation_status = false;\n        try_call([&] {\n            d1::wait(m_wait_vertex.get_context(), context());\n        }).on_completion([&] {\n            // TODO: the reset method is not thread-safe. Ensure the correct behavior.\n            cancellation_status = m_context.is_group_execution_cancelled();\n            context().reset();\n        });\n        return cancellation_status ? canceled : complete;',
        '        bool cancellation_status = false;\n        {\n            auto epilogue = make_raii_guard([&] {\n                cancellation_status = m_context.is_group_execution_cancelled();\n                context().reset();\n            });\n            d1::wait(m_wait_vertex.get_context(), context());\n        }\n        return cancellation_status ? canceled : complete;')]),
    dict(name='c03-b-group-wait-epilogue-by-try-catch', prop='C03', edits=[('include/oneapi/tbb/task_group.h',
        '        bool cancellation_status = false;\n        try_call([&] {\n            d1::wait(m_wait_vertex.get_context(), context());\n        }).on_completion([&] {\n            // TODO: the reset method is not thread-safe. Ensure the correct behavior.\n            cancellation_status = m_context.is_group_execution_cancelled();\n            context().reset();\n        });\n        return cancellation_status ? canceled : complete;',
        '        try {\n            d1::wait(m_wait_vertex.get_context(), context());\n        } catch (...) {\n            context().reset();\n            throw;\n        }\n        bool cancellation_status = m_context.is_group_execution_cancelled();\n        context().reset();\n        return cancellation_status ? canceled : complete;')]),
    dict(name='c03-b-group-wait-epilogue-by-raii-guard', prop='C03', edits=[('include/oneapi/tbb/task_group.h',
        '        bool cancellation_status = false;\n        try_call([&] {\n            d1::wait(m_wait_vertex.get_context(), context());\n        }).on_completion([&] {\n            // TODO: the reset method is not thread-safe. Ensure the correct behavior.\n            cancellation_status = m_context.is_group_execution_cancelled();\n            context().reset();\n        });\n        return cancellation_status ? canceled : complete;',
        '        bool cancellation_status = false;\n        {\n            auto epilogue = make_raii_guard([&] {\n                cancellation_status = m_context.is_group_execution_cancelled();\n                context().reset();\n            });\n            d1::wait(m_wait_vertex.get_context(), context());\n        }\n        return cancellation_status ? canceled : complete;')]),
    dict(name='c03-b-fold-to-root-renamed', prop='C03', edits=[('re', 'include/oneapi/tbb/partitioner.h', r'\bfold_tree_to_root\b', 'unwind_tree'),
        ('re', 'include/oneapi/tbb/parallel_reduce.h', r'\bfold_tree_to_root\b', 'unwind_tree')]),
    dict(name='c01-b-fold-to-root-renamed', prop='C01', edits=[('re', 'include/oneapi/tbb/partitioner.h', r'\bfold_tree_to_root\b', 'unwind_tree'),
        ('re', 'include/oneapi/tbb/parallel_reduce.h', r'\bfold_tree_to_root\b', 'unwind_tree')]),
    dict(name='c03-b-fold-restores-in-a-catch-all', prop='C03', edits=[('include/oneapi/tbb/partitioner.h',
        """        try_call([&] {
            self->join(ed.context);
        }).on_exception([&] {
            ++n->m_ref_count;
        });""",
        """        try {
            self->join(ed.context);
        } catch (...) {
            n->m_ref_count.fetch_add(1);
            throw;
        }""")]),
    dict(name='c03-b-graph-task-destructor-releases-through-a-local', prop='C03', edits=[('include/oneapi/tbb/detail/_flow_graph_impl.h',
        """        if (my_reference_vertex) {
            my_reference_vertex->release();
        }
    }""",
        """        d1::wait_tree_vertex_interface* held = my_reference_vertex;
        if (held != nullptr) {
            held->release();
        }
    }""")]),
    dict(name='c03-b-new-object-storage-returned-in-a-catch-all', prop='C03', edits=[('include/oneapi/tbb/detail/_small_object_pool.h',
        """        } guard{*m_pool, allocated_object};
        auto constructed_object = new(allocated_object) Type(std::forward<Args>(args)...);
        guard.storage = nullptr;
        return constructed_object;
    }

    template <typename Type>""",
        """        } guard{*m_pool, nullptr};
        (void)guard;
        Type* constructed_object = nullptr;
        try {
            constructed_object = new(allocated_object) Type(std::forward<Args>(args)...);
        } catch (...) {
            r1::deallocate(*m_pool, allocated_object, sizeof(Type));
            throw;
        }
        return constructed_object;
    }

    template <typename Type>""")]),
    dict(name='c03-b-final-sum-range-flag-renamed', prop='C03', edits=[('re', 'include/oneapi/tbb/parallel_scan.h', r'\bm_range_constructed\b', 'm_has_range')]),
    dict(name='c18-b-large-object-backref-check-after-the-block', prop='C18', edits=[('src/tbbmalloc/large_objects.cpp',
        """        if (backRefIdx.isInvalid())
            return nullptr;

        // unalignedSize is set in getLargeBlock
        lmb = backend.getLargeBlock(allocationSize);
        if (!lmb) {
            removeBackRef(backRefIdx);""",
        """        if (backRefIdx.isInvalid())
            return nullptr;
        const bool haveRef = !backRefIdx.isInvalid();

        // unalignedSize is set in getLargeBlock
        lmb = backend.getLargeBlock(allocationSize);
        if (!lmb) {
            if (haveRef) removeBackRef(backRefIdx);""")]),
    dict(name='c14-b-handler-busy-lowered-by-a-scope-guard', prop='C14', edits=[('include/oneapi/tbb/detail/_aggregator.h',
        """        // handle all the operations
        handle_operations(op_list);

        // release the handler
        handler_busy.store(0, std::memory_order_release);""",
        """        // release the handler on every exit
        struct busy_guard {
            std::atomic<uintptr_t>& busy;
            ~busy_guard() { busy.store(0, std::memory_order_release); }
        } guard{handler_busy};
        // handle all the operations
        handle_operations(op_list);""")]),
    dict(name='c17-b-calloc-null-test-first', prop='C17', edits=[('src/tbbmalloc/frontend.cpp',
        """    if (result)
        memset(result, 0, arraySize);
    else
        errno = ENOMEM;
    return result;""",
        """    if (!result) {
        errno = ENOMEM;
        return nullptr;
    }
    memset(result, 0, arraySize);
    return result;""")]),
    dict(name='c07-b-end-of-input-mark-lowered-by-the-caller', prop='C07', edits=[('src/tbb/parallel_pipeline.cpp',
        """        if( end_of_input_tls.get() != nullptr ) {
            end_of_input_tls.set(nullptr);
            return true;
        }
        return false;
    }""",
        """        return end_of_input_tls.get() != nullptr;
    }
    void clear_my_tls_end_of_input() {
        end_of_input_tls.set(nullptr);
    }"""),
        ('src/tbb/parallel_pipeline.cpp',
        """            if( !my_object && (!my_filter->object_may_be_null() || my_filter->my_input_buffer->my_tls_end_of_input()) ){
                my_pipeline.end_of_input.store(true, std::memory_order_relaxed);""",
        """            if( !my_object && (!my_filter->object_may_be_null() || my_filter->my_input_buffer->my_tls_end_of_input()) ){
                if( my_filter->object_may_be_null() ) {
                    my_filter->my_input_buffer->clear_my_tls_end_of_input();
                }
                my_pipeline.end_of_input.store(true, std::memory_order_relaxed);""")]),
    dict(name='c11-b-capacity-scan-with-break', prop='C11', edits=[('include/oneapi/tbb/detail/_segment_table.h',
        '        segment_table_type table = get_table();\n        size_type num_segments = number_of_segments(table);\n        for (size_type seg_index = 0; seg_index < num_segments; ++seg_index) {\n            // Check if the pointer is valid (allocated)\n            if (table[seg_index].load(std::memory_order_relaxed) <= segment_allocation_failure_tag) {\n                return segment_base(seg_index);\n            }\n        }\n        return segment_base(num_segments);',
        '        segment_table_type table = get_table();\n        size_type num_segments = number_of_segments(table);\n        size_type seg_index = 0;\n        for (; seg_index < num_segments; ++seg_index) {\n            // Check if the pointer is valid (allocated)\n            if (!(table[seg_index].load(std::memory_order_relaxed) > segment_allocation_failure_tag)) {\n                break;\n            }\n        }\n        return segment_base(seg_index);')]),
    dict(name='c11-b-abandon-range-inlined-into-the-guard', prop='C11', edits=[('include/oneapi/tbb/concurrent_vector.h',
        """            auto value_guard = make_raii_guard( [&] {
                abandon_range(table, idx, end_idx);
            });
            auto element_address""",
        """            auto value_guard = make_raii_guard( [&] {
                mark_abandoned_segments(table, idx, end_idx);
                for (size_type i = idx; i < end_idx; ++i) {
                    if (table[this->segment_index_of(i)].load(std::memory_order_relaxed) > this->segment_allocation_failure_tag) {
                        zero_unconstructed_elements(&this->internal_subscript(i), /*count =*/1);
                    }
                }
            });
            auto element_address""")]),
    dict(name='c11-b-at-bound-written-the-other-way-round', prop='C11', edits=[('include/oneapi/tbb/concurrent_vector.h',
        "        if (base_type::number_of_segments(table) <= seg_index) {", "        if (!(seg_index < base_type::number_of_segments(table))) {")]),
    dict(name='c19-b-table-copy-counts-the-copied-keys', prop='C19', edits=[('include/oneapi/tbb/enumerable_thread_specific.h',
        "        my_count.store(other.my_count.load(std::memory_order_relaxed), std::memory_order_relaxed);\n        std::size_t mask = root->mask();",
        "        std::size_t mask = root->mask();\n        std::size_t copied = other.my_count.load(std::memory_order_relaxed);\n        my_count.store(copied, std::memory_order_relaxed);")]),
    dict(name='c19-b-tls-key-creation-status-in-a-local', prop='C19', edits=[('include/oneapi/tbb/enumerable_thread_specific.h',
        """        if (pthread_key_create(&my_key, nullptr) != 0) {""",
        """        const int status = pthread_key_create(&my_key, nullptr);
        if (status) {""")]),
    dict(name='c02-b-execute-slot-in-a-local', prop='C02', edits=[('src/tbb/arena.cpp', '                index2 = a->occupy_free_slot</*as_worker*/false>(*td);\n                if (index2 != arena::out_of_arena) {\n                    a->my_exit_monitors.cancel_wait(waiter);', '                const size_t slot = a->occupy_free_slot</*as_worker*/false>(*td);\n                index2 = slot;\n                if (slot != arena::out_of_arena) {\n                    a->my_exit_monitors.cancel_wait(waiter);')]),
    dict(name='c09-b-try-push-discounts-invalid-entries', prop='C09', edits=[('include/oneapi/tbb/concurrent_queue.h',
        "            if (static_cast<std::ptrdiff_t>(ticket - my_queue_representation->head_counter.load(std::memory_order_relaxed)) >= my_capacity) {",
        "            if (static_cast<std::ptrdiff_t>(ticket - my_queue_representation->head_counter.load(std::memory_order_relaxed)) - static_cast<std::ptrdiff_t>(my_queue_representation->n_invalid_entries.load(std::memory_order_relaxed)) >= my_capacity) {")]),
    dict(name='c12-b-ordered-range-empty-by-iterators', prop='C12', edits=[('include/oneapi/tbb/detail/_concurrent_skip_list.h',
        "            return my_begin.my_node_ptr == my_end.my_node_ptr;", "            return my_begin == my_end;")]),
    dict(name='c05-b-is-divisible-written-the-other-way-round', prop='C05', edits=[('include/oneapi/tbb/blocked_range.h',
        "    bool is_divisible() const { return my_grainsize<size(); }",
        "    bool is_divisible() const { return size() > my_grainsize; }")]),
    dict(name='c02-b-rw-downgrade-wakes-everybody', prop='C02', edits=[('include/oneapi/tbb/rw_mutex.h',
        "            r1::notify_by_address(this, READER_CONTEXT);\n        }\n\n        __TBB_ASSERT(m_state.load(std::memory_order_relaxed) & READERS, \"invalid state after downgrade: no readers\");",
        "            r1::notify_by_address_all(this);\n        }\n\n        __TBB_ASSERT(m_state.load(std::memory_order_relaxed) & READERS, \"invalid state after downgrade: no readers\");")]),
    dict(name='c06-b-zombie-split-in-a-node-helper', prop='C06', edits=[
        ('include/oneapi/tbb/parallel_reduce.h', "    void join(task_group_context* context) {\n        if (has_right_zombie && !context->is_group_execution_cancelled())",
         "    Body* split_right_zombie() {\n        Body* b = new( zombie_space.begin() ) Body(left_body, detail::split());\n        has_right_zombie = true;\n        return b;\n    }\n\n    void join(task_group_context* context) {\n        if (has_right_zombie && !context->is_group_execution_cancelled())"),
        ('include/oneapi/tbb/parallel_reduce.h', "        tree_node_type* parent_ptr = static_cast<tree_node_type*>(my_parent);\n        my_body = static_cast<Body*>(new( parent_ptr->zombie_space.begin() ) Body(*my_body, split()));\n        parent_ptr->has_right_zombie = true;",
         "        my_body = static_cast<tree_node_type*>(my_parent)->split_right_zombie();")]),
    dict(name='c03-b-zombie-split-in-a-node-helper', prop='C03', edits=[
        ('include/oneapi/tbb/parallel_reduce.h', "    void join(task_group_context* context) {\n        if (has_right_zombie && !context->is_group_execution_cancelled())",
         "    Body* split_right_zombie() {\n        Body* b = new( zombie_space.begin() ) Body(left_body, detail::split());\n        has_right_zombie = true;\n        return b;\n    }\n\n    void join(task_group_context* context) {\n        if (has_right_zombie && !context->is_group_execution_cancelled())"),
        ('include/oneapi/tbb/parallel_reduce.h', "        tree_node_type* parent_ptr = static_cast<tree_node_type*>(my_parent);\n        my_body = static_cast<Body*>(new( parent_ptr->zombie_space.begin() ) Body(*my_body, split()));\n        parent_ptr->has_right_zombie = true;",
         "        my_body = static_cast<tree_node_type*>(my_parent)->split_right_zombie();")]),
    dict(name='c12-b-extract-counts-out-with-fetch-sub', prop='C12', edits=[('include/oneapi/tbb/detail/_concurrent_unordered_base.h',
        "                my_size.store(my_size.load(std::memory_order_relaxed) - 1, std::memory_order_relaxed);", "                my_size.fetch_sub(1, std::memory_order_relaxed);")]),
    dict(name='c01-b-group-wait-epilogue-in-a-named-lambda', prop='C01', edits=[('include/oneapi/tbb/task_group.h',
        """        try_call([&] {
            d1::wait(m_wait_vertex.get_context(), context());
        }).on_completion([&] {
            // TODO: the reset method is not thread-safe. Ensure the correct behavior.
            cancellation_status = m_context.is_group_execution_cancelled();
            context().reset();
        });""",
        """        auto wait_body = [&] {
            d1::wait(m_wait_vertex.get_context(), context());
        };
        try_call(wait_body).on_completion([&] {
            cancellation_status = context().is_group_execution_cancelled();
            context().reset();
        });""")]),
    dict(name='c05-b-ring-step-by-conditional', prop='C05', edits=[(PT_H,
        "        my_tail = (my_tail + 1) % MaxCapacity;", "        my_tail = depth_t(my_tail + 1 == MaxCapacity ? 0 : my_tail + 1);")]),
    dict(name='c06-b-ring-back-step-by-conditional', prop='C06', edits=[(PT_H,
        "        my_head = (my_head + MaxCapacity - 1) % MaxCapacity;", "        my_head = depth_t(my_head == 0 ? MaxCapacity - 1 : my_head - 1);")]),
    dict(name='c05-b-split-point-from-end', prop='C05', edits=[('include/oneapi/tbb/blocked_range.h',
        "        Value middle = r.my_begin + (r.my_end - r.my_begin) / 2u;", "        Value middle = r.my_end - (r.my_end - r.my_begin + 1u) / 2u;")]),
    dict(name='c11-b-tag-check-as-greater-than', prop='C11', edits=[('include/oneapi/tbb/detail/_segment_table.h', """            if (segment == segment_allocation_failure_tag) {
                throw_exception(exception_id::bad_alloc);
            }
        } else {""", """            if (!(segment > segment_allocation_failure_tag)) {
                throw_exception(exception_id::bad_alloc);
            }
        } else {""")]),
    dict(name='c12-b-doubling-by-shift', prop='C12', edits=[('include/oneapi/tbb/detail/_concurrent_unordered_base.h',
        "            my_bucket_count.compare_exchange_strong(current_size, 2u * current_size);", "            my_bucket_count.compare_exchange_strong(current_size, current_size << 1);")]),
    dict(name='c07-b-token-helpers-extracted', prop='C07', edits=[(PP_CPP, """    void try_spawn_stage_task(d1::execution_data& ed) {
        ITT_NOTIFY( sync_releasing, &my_pipeline.input_tokens );
        if( (my_pipeline.input_tokens.fetch_sub(1, std::memory_order_release)) > 1 ) {
            d1::small_object_allocator alloc{};
            r1::spawn( *alloc.new_object<stage_task>(ed, my_pipeline, alloc ), my_pipeline.my_context );
        }
    }""", """    bool take_input_token() {
        ITT_NOTIFY( sync_releasing, &my_pipeline.input_tokens );
        return my_pipeline.input_tokens.fetch_sub(1, std::memory_order_release) > 1;
    }
    void spawn_input_stage_task(d1::execution_data& ed) {
        d1::small_object_allocator alloc{};
        r1::spawn( *alloc.new_object<stage_task>(ed, my_pipeline, alloc ), my_pipeline.my_context );
    }
    void try_spawn_stage_task(d1::execution_data& ed) {
        const bool tokens_left = take_input_token();
        if( tokens_left )
            spawn_input_stage_task(ed);
    }""")]),
    dict(name='c14-b-forwarding-flag-or-assigned', prop='C14', edits=[(FG_H,
        "            case put_item: if (internal_push(tmp)) try_forwarding = true; break;", "            case put_item: try_forwarding = internal_push(tmp) || try_forwarding; break;")]),
    dict(name='c14-b-join-forward-spawn-in-helper', prop='C14', edits=[(FGJ_H, """                        if(tuple_build_may_succeed() && !forwarder_busy && is_graph_active(my_graph)) {
                            d1::small_object_allocator allocator{};
                            typedef forward_task_bypass< join_node_base<JP, InputTuple, OutputTuple> > task_type;
                            graph_task* t = allocator.new_object<task_type>(my_graph, allocator, *this);
                            spawn_in_graph_arena(my_graph, *t);
                            forwarder_busy = true;
                        }
                        current->status.store( SUCCEEDED, std::memory_order_release);""", """                        spawn_forwarder_if_needed();
                        current->status.store( SUCCEEDED, std::memory_order_release);"""),
        (FGJ_H, """        void handle_operations(join_node_base_operation* op_list) {
            join_node_base_operation *current;""", """        void spawn_forwarder_if_needed() {
            if(tuple_build_may_succeed() && !forwarder_busy && is_graph_active(my_graph)) {
                d1::small_object_allocator allocator{};
                typedef forward_task_bypass< join_node_base<JP, InputTuple, OutputTuple> > task_type;
                graph_task* t = allocator.new_object<task_type>(my_graph, allocator, *this);
                spawn_in_graph_arena(my_graph, *t);
                forwarder_busy = true;
            }
        }
        void handle_operations(join_node_base_operation* op_list) {
            join_node_base_operation *current;""")]),
    dict(name='c04-b-state-copy-in-a-helper-lambda', prop='C04', edits=[
        (TGC_CPP, "    if (ctx.my_parent->my_parent) {\n        // Even if this context were made accessible for state change propagation",
         "    auto inherit_parent_state = [&ctx] {\n        if (std::uint32_t parent_state = ctx.my_parent->my_cancellation_requested.load(std::memory_order_relaxed)) {\n            ctx.my_cancellation_requested.store(parent_state, std::memory_order_relaxed);\n        }\n    };\n    if (ctx.my_parent->my_parent) {\n        // Even if this context were made accessible for state change propagation"),
        (TGC_CPP, """        if (std::uint32_t parent_state = ctx.my_parent->my_cancellation_requested.load(std::memory_order_relaxed)) {
            ctx.my_cancellation_requested.store(parent_state, std::memory_order_relaxed);
        }
        register_with(ctx, td); // Issues full fence
""", """        inherit_parent_state();
        register_with(ctx, td); // Issues full fence
"""),
        (TGC_CPP, """            if (std::uint32_t parent_state = ctx.my_parent->my_cancellation_requested.load(std::memory_order_relaxed)) {
                ctx.my_cancellation_requested.store(parent_state, std::memory_order_relaxed);
            }
        }
    } else {""", """            inherit_parent_state();
        }
    } else {"""),
        (TGC_CPP, """        if (std::uint32_t parent_state = ctx.my_parent->my_cancellation_requested.load(std::memory_order_relaxed)) {
            ctx.my_cancellation_requested.store(parent_state, std::memory_order_relaxed);
        }
    }
}""", """        inherit_parent_state();
    }
}""")]),
    dict(name='c05-b-ratio-operands-commuted', prop='C05', edits=[('include/oneapi/tbb/blocked_range2d.h',
        "             my_rows.size()*double(my_cols.grainsize()) < my_cols.size()*double(my_rows.grainsize())) ) {",
        "             double(my_cols.grainsize())*my_rows.size() < double(my_rows.grainsize())*my_cols.size()) ) {")]),
    dict(name='c11-b-snapshot-refreshed-in-wait', prop='C11', edits=[(CV_H, """                while (this->get_table()[seg_idx].load(std::memory_order_relaxed) == nullptr) {
                    backoff.pause();""", """                segment_table_type table = this->get_table();
                while (table[seg_idx].load(std::memory_order_relaxed) == nullptr) {
                    backoff.pause();
                    table = this->get_table();""")]),
    dict(name='c19-b-exit-on-equal-done', prop='C19', edits=[(CO_H, "        } while (expected != state::done);", "        } while (!(expected == state::done));")]),
    dict(name='c13-b-mark-in-local', prop='C13', edits=[(CPQ_H, """        while(child < mark) {
            size_type target = child;
            if (child + 1 < mark && my_compare(data[child], data[child + 1]))""", """        const size_type heap_end = mark;
        while(child < heap_end) {
            size_type target = child;
            if (child + 1 < heap_end && my_compare(data[child], data[child + 1]))""")]),
    dict(name='c07-b-grow-more', prop='C07', edits=[(PP_CPP, "                grow( token-low_token+1 );", "                grow( token-low_token+2 );")]),
    dict(name='c01-b-static-cast-arbitration', prop='C01', edits=[(AS_CPP,
        "if ( (std::intptr_t)( head.load(std::memory_order_acquire) ) > (std::intptr_t)T ) {",
        "if ( static_cast<std::ptrdiff_t>( head.load(std::memory_order_acquire) ) > static_cast<std::ptrdiff_t>(T) ) {")]),
    dict(name='c02-b-wakeup-forward-inverted-test', prop='C02', edits=[(AR_CPP, """            if (index2 == arena::out_of_arena) {
                // notify a waiting thread even if this thread did not enter arena,
                // in case it was woken by a leaving thread but did not need to enter
                a->my_exit_monitors.notify_one(); // do not relax!
            }""", """            if (index2 != arena::out_of_arena) {
                // the nested arena scope has notified on leaving
            } else {
                a->my_exit_monitors.notify_one(); // do not relax!
            }""")]),
    dict(name='c03-b-node-first-assign-late', prop='C03', edits=[(PF_H, """        start_for& right_child = *alloc.new_object<start_for>(ed, std::forward<Args>(constructor_args)..., alloc);

        // New root node as a continuation and ref count. Left and right child attach to the new parent.
        right_child.my_parent = my_parent = alloc.new_object<tree_node>(ed, my_parent, 2, alloc);
""", """        tree_node* new_node = alloc.new_object<tree_node>(ed, my_parent, 2, alloc);
        start_for& right_child = *alloc.new_object<start_for>(ed, std::forward<Args>(constructor_args)..., alloc);
        right_child.my_parent = my_parent = new_node;
""")]),
    dict(name='c14-b-reservation-checked-in-callee', prop='C14', edits=[
        (FG_H, "        if (this->my_reserved || !derived->is_item_valid()) {", "        if (!derived->is_item_valid()) {"),
        (FG_H, "    bool is_item_valid() {\n        return this->my_item_valid(this->my_tail - 1);", "    bool is_item_valid() {\n        return !this->my_reserved && this->my_item_valid(this->my_tail - 1);"),
        (FG_H, "    bool is_item_valid() {\n        return this->my_item_valid(this->my_head);", "    bool is_item_valid() {\n        return !this->my_reserved && this->my_item_valid(this->my_head);"),
        (FG_H, "    bool is_item_valid() {\n        return this->my_tail > 0;", "    bool is_item_valid() {\n        return !this->my_reserved && this->my_tail > 0;")]),
    dict(name='c17-b-bound-minus-one', prop='C17', edits=[(FE_CPP, "else if (size+alignment < minLargeObjectSize) {", "else if (size+alignment <= minLargeObjectSize-1) {")]),
    dict(name='c17-b-bound-mirrored', prop='C17', edits=[(FE_CPP, "else if (size+alignment < minLargeObjectSize) {", "else if (minLargeObjectSize > size+alignment) {")]),
    dict(name='c09-b-functional-cast', prop='C09', edits=[(CQ_H,
        "if (static_cast<std::ptrdiff_t>(ticket - my_queue_representation->head_counter.load(std::memory_order_relaxed)) >= my_capacity) {",
        "if (std::ptrdiff_t(ticket - my_queue_representation->head_counter.load(std::memory_order_relaxed)) >= my_capacity) {")]),
    dict(name='c01-b-skip-by-plus-equal', prop='C01', edits=[(AS_CPP, "                ++H0;\n            }", "                H0 += 1;\n            }")]),
    dict(name='c01-b-fetch_sub', prop='C01', edits=[
        (AS_CPP, "        T = --tail;\n", "        T = tail.fetch_sub(1) - 1;\n")]),
    dict(name='c01-b-stronger-orders', prop='C01', edits=[
        (AS_CPP, "(std::intptr_t)(tail.load(std::memory_order_acquire))", "(std::intptr_t)(tail.load(std::memory_order_seq_cst))"),
        (AS_H, "        task_pool.store(victim_task_pool, std::memory_order_release);", "        task_pool.store(victim_task_pool);")]),
    dict(name='c01-b-finalize-helper', prop='C01', edits=[
        (PF_H, "    finalize(ed);\n    return nullptr;\n}\n\n//! Calls the function with values from range [begin, end) with a step provided",
         "    auto do_fin = [&] { finalize(ed); };\n    do_fin();\n    return nullptr;\n}\n\n//! Calls the function with values from range [begin, end) with a step provided")]),
    dict(name='c02-b-extra-fence', prop='C02', edits=[
        (CM_H, "    void notify_one() {\n        atomic_fence_seq_cst();", "    void notify_one() {\n        atomic_fence_seq_cst();\n        std::atomic_thread_fence(std::memory_order_seq_cst);")]),
    dict(name='c02-b-unlock-manual-lock', prop='C02', edits=[
        ('src/tbb/thread_request_serializer.cpp', "void thread_request_serializer::set_active_num_workers(int soft_limit) {\n    mutex_type::scoped_lock lock(my_mutex);",
         "void thread_request_serializer::set_active_num_workers(int soft_limit) {\n    mutex_type::scoped_lock lock;\n    lock.acquire(my_mutex);")]),
    dict(name='c03-b-store-seqcst', prop='C03', edits=[
        (TDH, "ed.context->my_exception.store(tbb_exception_ptr::allocate(), std::memory_order_release);",
         "ed.context->my_exception.store(tbb_exception_ptr::allocate());")]),
    dict(name='c04-b-cas-instead-of-exchange', prop='C04', edits=[
        (TGC_CPP, "if (ctx.my_cancellation_requested.load(std::memory_order_relaxed) || ctx.my_cancellation_requested.exchange(1)) {",
         "std::uint32_t exp0 = 0;\n    if (ctx.my_cancellation_requested.load(std::memory_order_relaxed) || !ctx.my_cancellation_requested.compare_exchange_strong(exp0, 1)) {")]),
    dict(name='c05-b-extra-divisible-check', prop='C05', edits=[
        (PT_H, "        while( range.is_divisible() )\n            start.offer_work( split_obj, ed );", "        while( range.is_divisible() ) {\n            if (!range.is_divisible()) break;\n            start.offer_work( split_obj, ed );\n        }")]),
    dict(name='c06-b-swap-instead-of-iter_swap', prop='C06', edits=[
        ('include/oneapi/tbb/parallel_sort.h', "        std::iter_swap(array + j, first_element);", "        std::iter_swap(first_element, array + j);")]),
    dict(name='c07-b-manual-lock', prop='C07', edits=[
        (PP_CPP, "        task_info wakee;\n        {\n            spin_mutex::scoped_lock lock( array_mutex );\n            // Wake the next task",
         "        task_info wakee;\n        {\n            spin_mutex::scoped_lock lock;\n            lock.acquire( array_mutex );\n            // Wake the next task")]),
    dict(name='c08-b-stronger', prop='C08', edits=[
        ('include/oneapi/tbb/spin_mutex.h', "        m_flag.store(false, std::memory_order_release);", "        m_flag.exchange(false);")]),
    dict(name='c09-b-fetch_add-ticket', prop='C09', edits=[
        (CQ_H, "        ticket_type k = my_queue_representation->tail_counter++;", "        ticket_type k = my_queue_representation->tail_counter.fetch_add(1);")]),
    dict(name='c10-b-erase-writer-from-start', prop='C10', edits=[
        (CHM_H, "            // get bucket\n            bucket_accessor b( this, hash & mask );\n        search:", "            // get bucket\n            bucket_accessor b( this, hash & mask, true );\n        search:")]),
    dict(name='c11-b-size_type-delta', prop='C11', edits=[
        (CV_H, "        if (old_size < new_size) {\n            return internal_grow(old_size, new_size, args...);\n        }",
         "        size_type delta = old_size < new_size ? new_size - old_size : 0;\n        if (delta > 0) {\n            return internal_grow(old_size, new_size, args...);\n        }")]),
    dict(name='c12-b-set_next-seqcst', prop='C12', edits=[
        (CUB_H, "        my_next.store(next_node, std::memory_order_release);", "        my_next.store(next_node);")]),
    dict(name='c13-b-status-seqcst', prop='C13', edits=[
        (CPQ_H, "                tmp->status.store(uintptr_t(FAILED), std::memory_order_release);\n            } else {", "                tmp->status.store(uintptr_t(FAILED));\n            } else {")]),
    dict(name='c14-b-status-helper', prop='C14', edits=[
        (FGN_H, "            case rem_pred:\n                my_predecessors.remove(*(tmp->r));\n                tmp->status.store(SUCCEEDED, std::memory_order_release);\n                break;",
         "            case rem_pred:\n                my_predecessors.remove(*(tmp->r));\n                tmp->status.store(SUCCEEDED);\n                break;")]),
    dict(name='c15-b-limiter-check-conditions', prop='C15', edits=[
        (FG_H, "            if ( my_count + my_tries >= my_threshold )\n                return nullptr;\n            else\n                ++my_tries;", "            if ( !(my_count + my_tries < my_threshold) )\n                return nullptr;\n            else\n                ++my_tries;")]),
    dict(name='c16-b-try_occupy-cas', prop='C16', edits=[
        (AS_H, "        return !is_occupied() && my_is_occupied.exchange(true) == false;", "        bool e = false;\n        return !is_occupied() && my_is_occupied.compare_exchange_strong(e, true);")]),
    dict(name='c18-b-errno-helper-order', prop='C18', edits=[
        (FE_CPP, "    void *ptr = internalMalloc(size);\n    if (!ptr) errno = ENOMEM;\n    return ptr;", "    void *ptr = internalMalloc(size);\n    if (ptr == nullptr) { errno = ENOMEM; }\n    return ptr;")]),
    dict(name='c17-b-calloc-early-return', prop='C17', edits=[
        (FE_CPP, "    if (result)\n        memset(result, 0, arraySize);\n    else\n        errno = ENOMEM;\n    return result;", "    if (!result) {\n        errno = ENOMEM;\n        return result;\n    }\n    memset(result, 0, arraySize);\n    return result;")]),
    # renaming locals / parameters must never matter
    dict(name='c11-b-rename-locals', prop='C11', edits=[('re', CV_H, r'\bold_size\b', 'observed_sz'), ('re', CV_H, r'\bnew_size\b', 'wanted_sz')]),
    dict(name='c17-b-rename-locals', prop='C17', edits=[('re', FE_CPP, r'\blocalPublicFreeList\b', 'prevHead')]),
    dict(name='c13-b-rename-locals', prop='C13', edits=[('re', AGG_H, r'\bres\b', 'head0'), ('re', CPQ_H, r'\btmp\b', 'cur_op')]),
    dict(name='c12-b-rename-locals', prop='C12', edits=[('re', CUB_H, r'\bnew_node\b', 'nn'), ('re', CUB_H, r'\bprev_node\b', 'pn'), ('re', CSL_H, r'\bnew_node\b', 'nn')]),
    dict(name='c19-b-rename-locals', prop='C19', edits=[('re', CO_H, r'\bexpected\b', 'seen')]),
    dict(name='c16-b-rename-locals', prop='C16', edits=[('re', AS_CPP, r'\bomit\b', 'skip_it'), ('re', AR_CPP, r'\bindex2\b', 'idx_b')]),
    dict(name='c01-b-rename-locals', prop='C01', edits=[('re', AS_CPP, r'\bvictim_pool\b', 'vp'), ('re', AS_CPP, r'\btasks_omitted\b', 'skipped')]),
    dict(name='c08-b-rename-locals', prop='C08', edits=[('re', 'src/tbb/rtm_mutex.cpp', r'\bonly_speculate\b', 'spec_only'), ('re', QRW_CPP, r'\bpredecessor\b', 'pred0')]),
    dict(name='c10-b-release-in-the-overloads', prop='C10', edits=[
        (CHM_H, "    bool generic_move_insert( Accessor && result, value_type && value ) {\n        result.release();\n", "    bool generic_move_insert( Accessor && result, value_type && value ) {\n"),
        (CHM_H, "    bool insert( const_accessor &result, value_type && value ) {\n        return generic_move_insert(result, std::move(value));",
         "    bool insert( const_accessor &result, value_type && value ) {\n        result.release();\n        return generic_move_insert(result, std::move(value));"),
        (CHM_H, "    bool insert( accessor &result, value_type && value ) {\n        return generic_move_insert(result, std::move(value));",
         "    bool insert( accessor &result, value_type && value ) {\n        result.release();\n        return generic_move_insert(result, std::move(value));")]),
    dict(name='c10-b-rename-locals', prop='C10', edits=[('re', CHM_H, r'\breturn_value\b', 'rv'), ('re', CHM_H, r'\berase_node\b', 'victim')]),
    dict(name='c02-b-rename-locals', prop='C02', edits=[('re', CQ_H, r'\bpresent\b', 'got_one')]),
    dict(name='c18-b-rename-locals', prop='C18', edits=[('re', FE_CPP, r'\bmemptr\b', 'outp'), ('re', FE_CPP, r'\bunaligned\b', 'raw0')]),
]
