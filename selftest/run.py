#!/usr/bin/env python3
"""Self-test of the rules: every mutant (one broken instance, still compiling) must be reported with the expected clause,
and every benign edit must stay silent.  Works on a scratch copy of /repo's include/ and src/ (under $TMPDIR, removed at exit);
/repo itself is never touched.

usage: selftest/run.py [PROP ...] [--only NAME] [--keep]
"""
import os
import re
import shutil
import subprocess
import sys
import tempfile

HERE = os.path.dirname(os.path.abspath(__file__))
VERIF = os.path.dirname(HERE)
sys.path.insert(0, HERE)
from mutants import MUTANTS, BENIGN   # noqa: E402


def main():
    args = sys.argv[1:]
    only = None
    props = []
    i = 0
    while i < len(args):
        if args[i] == '--only':
            only = args[i + 1]
            i += 2
        else:
            props.append(args[i])
            i += 1
    scratch = tempfile.mkdtemp(prefix='vsx-')
    try:
        for d in ('include', 'src'):
            shutil.copytree(os.path.join('/repo', d), os.path.join(scratch, d))
        env = dict(os.environ, VERIF_REPO=scratch)
        fails = 0
        total = 0
        for kind, lst in (('mutant', MUTANTS), ('benign', BENIGN)):
            for m in lst:
                if props and m['prop'] not in props:
                    continue
                if only and m['name'] != only:
                    continue
                total += 1
                edits = m['edits']
                saved = {}
                ok_apply = True
                for ed in edits:
                    if len(ed) == 4 and ed[0] == 're':
                        # whole-file identifier rename: ('re', file, regex, replacement)
                        _, rel, pat, repl = ed
                        p = os.path.join(scratch, rel)
                        src = open(p).read()
                        saved.setdefault(p, src)
                        new_src, cnt = re.subn(pat, repl, src)
                        if cnt == 0:
                            print('FAIL %-6s %s: regex %s matches nothing in %s' % (kind, m['name'], pat, rel))
                            ok_apply = False
                            break
                        open(p, 'w').write(new_src)
                        continue
                    (rel, old, new) = ed
                    p = os.path.join(scratch, rel)
                    src = open(p).read()
                    saved.setdefault(p, src)
                    if src.count(old) != 1:
                        print('FAIL %-6s %s: pattern occurs %d times in %s' % (kind, m['name'], src.count(old), rel))
                        ok_apply = False
                        break
                    open(p, 'w').write(src.replace(old, new))
                if ok_apply:
                    r = subprocess.run([os.path.join(VERIF, 'check'), m['prop']], env=env, stdout=subprocess.PIPE,
                                       stderr=subprocess.STDOUT, universal_newlines=True, cwd=VERIF)
                    out = r.stdout
                    if kind == 'mutant':
                        want = m.get('clause')
                        hit = [l for l in out.splitlines() if ('[%s/' % want) in l] if want else []
                        if r.returncode == 1 and (not want or hit):
                            print('ok   mutant %s -> %s %s' % (m['name'], m['prop'], want))
                        else:
                            fails += 1
                            print('FAIL mutant %s: rc=%d expected VIOLATION in clause %s' % (m['name'], r.returncode, want))
                            print('     ' + '\n     '.join(out.splitlines()[-8:]))
                    else:
                        if r.returncode == 0:
                            print('ok   benign %s -> %s silent' % (m['name'], m['prop']))
                        else:
                            fails += 1
                            print('FAIL benign %s: rc=%d' % (m['name'], r.returncode))
                            print('     ' + '\n     '.join(out.splitlines()[-8:]))
                else:
                    fails += 1
                for p, src in saved.items():
                    open(p, 'w').write(src)
        print('%d case(s), %d failure(s)' % (total, fails))
        return 1 if fails else 0
    finally:
        shutil.rmtree(scratch, ignore_errors=True)


if __name__ == '__main__':
    sys.exit(main())
